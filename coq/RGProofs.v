(* RGProofs.v — specifications of the executable region-graph checks in RG.v and
   correctness of the two constructions. *)
From Coq Require Import ZArith QArith Qcanon List Bool Arith Lia Sorted Permutation.
Import ListNotations.
From CK Require Import Base Scalar Tensor Pexpr Exec Struct RG.
Close Scope Qc_scope. Close Scope Q_scope. Close Scope Z_scope. Open Scope nat_scope.

(* ================================================================== *)
(* 1. rg_valid                                                          *)
(* ================================================================== *)
Definition PartOK (g : rg) (o : nat) (ins : list nat) : Prop :=
  o < length (regions g) /\
  ins <> [] /\
  (forall j, In j ins -> j < length (regions g)) /\
  (forall j, In j ins -> rscope g j <> []) /\
  (forall p q, p < q -> q < length ins ->
     forall v, In v (rscope g (nth p ins 0)) -> ~ In v (rscope g (nth q ins 0))) /\
  (forall v, In v (rscope g o) <-> exists j, In j ins /\ In v (rscope g j)).

Definition Valid (g : rg) : Prop :=
  roots g <> [] /\
  (forall r, In r (roots g) -> r < length (regions g)) /\
  (forall s, In s (regions g) -> s <> []) /\
  (forall o ins, In (o, ins) (parts g) -> PartOK g o ins) /\
  (forall v, (exists r, In r (roots g) /\ In v (rscope g r)) <->
             (exists s, In s (regions g) /\ In v s)).

Lemma nth_map_rscope g ins p : p < length ins ->
  nth p (map (rscope g) ins) [] = rscope g (nth p ins 0).
Proof.
  intros Hp.
  rewrite (nth_indep _ [] (rscope g 0)) by (rewrite map_length; exact Hp).
  apply map_nth.
Qed.

Lemma forallb_ltb_iff n l : forallb (fun j => j <? n) l = true <-> forall j, In j l -> j < n.
Proof.
  rewrite forallb_forall. split; intros H j Hj.
  - apply Nat.ltb_lt. apply H; exact Hj.
  - apply Nat.ltb_lt. apply H; exact Hj.
Qed.

Lemma forallb_nonempty_iff {A} (f : A -> list nat) l :
  forallb (fun j => negb (sempty (f j))) l = true <-> forall j, In j l -> f j <> [].
Proof.
  rewrite forallb_forall. split; intros H j Hj.
  - apply sempty_false. apply H; exact Hj.
  - apply sempty_false. apply H; exact Hj.
Qed.

Lemma all_pairs_rscope_iff g ins :
  all_pairs sdisjoint (map (rscope g) ins) = true <->
  (forall p q, p < q -> q < length ins ->
     forall v, In v (rscope g (nth p ins 0)) -> ~ In v (rscope g (nth q ins 0))).
Proof.
  rewrite (all_pairs_iff sdisjoint []). rewrite map_length. split.
  - intros H p q Hpq Hq. specialize (H p q Hpq Hq).
    rewrite !nth_map_rscope in H by lia. apply sdisjoint_iff. exact H.
  - intros H p q Hpq Hq. rewrite !nth_map_rscope by lia. apply sdisjoint_iff.
    apply H; assumption.
Qed.

Lemma sunions_map_In {A} (f : A -> list nat) l v :
  In v (sunions (map f l)) <-> exists j, In j l /\ In v (f j).
Proof.
  rewrite sunions_In. split.
  - intros [s [Hs Hv]]. apply in_map_iff in Hs. destruct Hs as [j [Hj Hin]]. subst s.
    exists j. split; assumption.
  - intros [j [Hj Hv]]. exists (f j). split; [apply in_map; exact Hj | exact Hv].
Qed.

Lemma cover_iff g ins o :
  seqb (sunions (map (rscope g) ins)) (canon (rscope g o)) = true <->
  (forall v, In v (rscope g o) <-> exists j, In j ins /\ In v (rscope g j)).
Proof.
  rewrite seqb_iff by (apply sunions_sorted || apply canon_sorted). unfold set_eq. split.
  - intros H v. specialize (H v). rewrite sunions_map_In, canon_In in H. tauto.
  - intros H v. specialize (H v). rewrite sunions_map_In, canon_In. tauto.
Qed.

Lemma part_ok_spec g o ins : part_ok g (o, ins) = true <-> PartOK g o ins.
Proof.
  unfold part_ok, PartOK.
  rewrite !andb_true_iff, Nat.ltb_lt, sempty_false, forallb_ltb_iff,
    (forallb_nonempty_iff (rscope g)), all_pairs_rscope_iff, cover_iff.
  tauto.
Qed.

Lemma roots_cover_iff g :
  seqb (sunions (map (rscope g) (roots g))) (rg_vars g) = true <->
  (forall v, (exists r, In r (roots g) /\ In v (rscope g r)) <->
             (exists s, In s (regions g) /\ In v s)).
Proof.
  unfold rg_vars. rewrite seqb_iff by apply sunions_sorted. unfold set_eq. split.
  - intros H v. specialize (H v). rewrite sunions_map_In, sunions_In in H. exact H.
  - intros H v. rewrite sunions_map_In, sunions_In. apply H.
Qed.

Theorem rg_valid_spec g : rg_valid g = true <-> Valid g.
Proof.
  unfold rg_valid, Valid.
  rewrite !andb_true_iff, sempty_false, forallb_ltb_iff,
    (forallb_nonempty_iff (fun s : list nat => s)), roots_cover_iff.
  rewrite forallb_forall.
  split.
  - intros [[[[H1 H2] H3] H4] H5].
    split; [exact H1|]. split; [exact H2|]. split; [exact H3|]. split; [|exact H5].
    intros o ins Hp. apply part_ok_spec. apply H4. exact Hp.
  - intros [H1 [H2 [H3 [H4 H5]]]].
    split; [|exact H5]. split; [|]. split; [|exact H3]. split; [exact H1|exact H2].
    intros [o ins] Hp. apply part_ok_spec. apply H4. exact Hp.
Qed.

(* ================================================================== *)
(* 2. rg_sd                                                             *)
(* ================================================================== *)
Lemma canon_eq_iff a b : canon a = canon b <-> set_eq a b.
Proof.
  split.
  - intros H v. rewrite <- (canon_In v a), <- (canon_In v b), H. tauto.
  - intros H. apply sorted_ext; try apply canon_sorted.
    intros v. rewrite !canon_In. apply H.
Qed.

Lemma canon_nonempty s : canon s <> [] <-> s <> [].
Proof.
  split.
  - intros H E. subst s. apply H. reflexivity.
  - intros H E. destruct s as [|x s]; [apply H; reflexivity|].
    assert (Hx : In x (canon (x :: s))) by (apply canon_In; left; reflexivity).
    rewrite E in Hx. exact Hx.
Qed.

Lemma set_eq_canon s : set_eq (canon s) s.
Proof. intros v. apply canon_In. Qed.

Lemma set_eq_trans a b c : set_eq a b -> set_eq b c -> set_eq a c.
Proof. intros H1 H2 v. rewrite (H1 v). apply H2. Qed.

Lemma same_split_canon f g : same_split (map canon f) (map canon g) <-> same_split f g.
Proof.
  unfold same_split. split.
  - intros [H1 H2]. split.
    + intros s Hs Hne. destruct (H1 (canon s)) as [t' [Ht' Hst]].
      * apply in_map; exact Hs.
      * apply canon_nonempty; exact Hne.
      * apply in_map_iff in Ht'. destruct Ht' as [t [Et Ht]]. subst t'. exists t. split; [exact Ht|].
        apply (set_eq_trans _ (canon s)); [apply set_eq_sym, set_eq_canon|].
        apply (set_eq_trans _ (canon t)); [exact Hst|apply set_eq_canon].
    + intros s Hs Hne. destruct (H2 (canon s)) as [t' [Ht' Hst]].
      * apply in_map; exact Hs.
      * apply canon_nonempty; exact Hne.
      * apply in_map_iff in Ht'. destruct Ht' as [t [Et Ht]]. subst t'. exists t. split; [exact Ht|].
        apply (set_eq_trans _ (canon s)); [apply set_eq_sym, set_eq_canon|].
        apply (set_eq_trans _ (canon t)); [exact Hst|apply set_eq_canon].
  - intros [H1 H2]. split.
    + intros s' Hs' Hne. apply in_map_iff in Hs'. destruct Hs' as [s [Es Hs]]. subst s'.
      destruct (H1 s Hs) as [t [Ht Hst]]; [apply canon_nonempty; exact Hne|].
      exists (canon t). split; [apply in_map; exact Ht|].
      apply (set_eq_trans _ s); [apply set_eq_canon|].
      apply (set_eq_trans _ t); [exact Hst|apply set_eq_sym, set_eq_canon].
    + intros s' Hs' Hne. apply in_map_iff in Hs'. destruct Hs' as [s [Es Hs]]. subst s'.
      destruct (H2 s Hs) as [t [Ht Hst]]; [apply canon_nonempty; exact Hne|].
      exists (canon t). split; [apply in_map; exact Ht|].
      apply (set_eq_trans _ s); [apply set_eq_canon|].
      apply (set_eq_trans _ t); [exact Hst|apply set_eq_sym, set_eq_canon].
Qed.

Lemma Forall_sorted_map_canon f : Forall sorted (map canon f).
Proof.
  apply Forall_forall. intros s Hs. apply in_map_iff in Hs. destruct Hs as [t [Et _]]. subst s.
  apply canon_sorted.
Qed.

Lemma part_fact_snd_eq_iff g p q :
  snd (part_fact g p) = snd (part_fact g q) <->
  same_split (map (rscope g) (snd p)) (map (rscope g) (snd q)).
Proof.
  unfold part_fact; simpl.
  rewrite <- same_split_canon, !map_map.
  rewrite <- fcanon_canonical by (rewrite <- map_map; apply Forall_sorted_map_canon).
  rewrite feqb_eq. tauto.
Qed.

Theorem rg_sd_spec g :
  rg_sd g = true <->
  forall p q, In p (parts g) -> In q (parts g) ->
    set_eq (rscope g (fst p)) (rscope g (fst q)) ->
    same_split (map (rscope g) (snd p)) (map (rscope g) (snd q)).
Proof.
  unfold rg_sd. change (pairs_ok (map (part_fact g) (parts g)) = true <-> 
    forall p q, In p (parts g) -> In q (parts g) ->
    set_eq (rscope g (fst p)) (rscope g (fst q)) ->
    same_split (map (rscope g) (snd p)) (map (rscope g) (snd q))).
  rewrite pairs_ok_iff. split.
  - intros H p q Hp Hq Heq. apply part_fact_snd_eq_iff.
    apply (H (fst (part_fact g p))).
    + rewrite <- surjective_pairing. apply in_map; exact Hp.
    + apply canon_eq_iff in Heq.
      replace (fst (part_fact g p)) with (fst (part_fact g q)) by (simpl; symmetry; exact Heq).
      rewrite <- surjective_pairing. apply in_map; exact Hq.
  - intros H s f1 f2 H1 H2.
    apply in_map_iff in H1. destruct H1 as [p [Ep Hp]].
    apply in_map_iff in H2. destruct H2 as [q [Eq Hq]].
    assert (E1 : f1 = snd (part_fact g p)) by (rewrite Ep; reflexivity).
    assert (E2 : f2 = snd (part_fact g q)) by (rewrite Eq; reflexivity).
    rewrite E1, E2. apply part_fact_snd_eq_iff. apply H; try assumption.
    apply canon_eq_iff.
    change (fst (part_fact g p) = fst (part_fact g q)). rewrite Ep, Eq. reflexivity.
Qed.

(* ================================================================== *)
(* 3. fully factorized region graph                                     *)
(* ================================================================== *)
Lemma same_split_refl f : same_split f f.
Proof.
  split; intros s Hs _; exists s; (split; [exact Hs|apply set_eq_refl]).
Qed.

Lemma sorted_seq a n : sorted (seq a n).
Proof.
  revert a. induction n as [|n IH]; intros a; simpl.
  - apply SSorted_nil.
  - apply SSorted_cons; [apply IH|].
    apply Forall_forall. intros x Hx. apply in_seq in Hx. lia.
Qed.

Lemma nth_concat_const {A B} (l : list A) (xs : list B) (d : A) : forall r v,
  r < length xs -> v < length l ->
  nth (r * length l + v) (concat (map (fun _ => l) xs)) d = nth v l d.
Proof.
  induction xs as [|x xs IH]; intros r v Hr Hv; simpl in Hr; [lia|].
  simpl. destruct r as [|r].
  - simpl. apply app_nth1. exact Hv.
  - rewrite app_nth2 by (simpl; lia).
    replace (SS r * length l + v - length l) with (r * length l + v) by (simpl; lia).
    apply IH; [lia|exact Hv].
Qed.

Lemma length_concat_const {A B} (l : list A) (xs : list B) :
  length (concat (map (fun _ => l) xs)) = length xs * length l.
Proof.
  induction xs as [|x xs IH]; simpl; [reflexivity|]. rewrite app_length, IH. reflexivity.
Qed.

Lemma in_concat_const {A B} (l : list A) (xs : list B) (a : A) :
  xs <> [] -> (In a (concat (map (fun _ => l) xs)) <-> In a l).
Proof.
  intros Hne. induction xs as [|x xs IH]; [congruence|].
  simpl. rewrite in_app_iff. destruct xs as [|y xs].
  - simpl. tauto.
  - rewrite IH by congruence. tauto.
Qed.

Lemma nth_map_seq (f : nat -> nat) n p d : p < n -> nth p (map f (seq 0 n)) d = f p.
Proof.
  intros Hp. rewrite (nth_indep _ d (f 0)) by (rewrite map_length, seq_length; exact Hp).
  rewrite map_nth. rewrite seq_nth by exact Hp. reflexivity.
Qed.

Definition ffg (n reps : nat) : rg :=
  mkRG (seq 0 n :: concat (map (fun _ => map (fun v => [v]) (seq 0 n)) (seq 0 reps)))
       (map (fun r => (0, map (fun v => 1 + r * n + v) (seq 0 n))) (seq 0 reps))
       [0].

Lemma ff_rg_big n reps : n <> 1 -> ff_rg n reps = ffg n reps.
Proof.
  intros Hn. unfold ff_rg. destruct (n =? 1) eqn:E; [apply Nat.eqb_eq in E; lia|reflexivity].
Qed.

Lemma ffg_length n reps : length (regions (ffg n reps)) = 1 + reps * n.
Proof.
  simpl. rewrite length_concat_const, map_length, !seq_length. reflexivity.
Qed.

Lemma ffg_rscope0 n reps : rscope (ffg n reps) 0 = seq 0 n.
Proof. reflexivity. Qed.

Lemma ffg_rscope n reps r v : r < reps -> v < n ->
  rscope (ffg n reps) (SS (r * n + v)) = [v].
Proof.
  intros Hr Hv. unfold rscope. simpl.
  pose proof (nth_concat_const (map (fun v => [v]) (seq 0 n)) (seq 0 reps) [] r v) as H.
  rewrite map_length, !seq_length in H. rewrite H by assumption.
  rewrite (nth_indep _ [] ((fun v => [v]) 0)) by (rewrite map_length, seq_length; exact Hv).
  rewrite (map_nth (fun v => [v])). rewrite seq_nth by exact Hv. reflexivity.
Qed.

Lemma ffg_regions_In n reps s : 1 <= reps ->
  (In s (regions (ffg n reps)) <-> s = seq 0 n \/ exists v, v < n /\ s = [v]).
Proof.
  intros Hreps. simpl. rewrite in_concat_const by (destruct reps; simpl; [lia|congruence]).
  rewrite in_map_iff. split.
  - intros [H|[v [E Hv]]]; [left; symmetry; exact H|].
    right. exists v. apply in_seq in Hv. split; [lia|symmetry; exact E].
  - intros [H|[v [Hv E]]]; [left; symmetry; exact H|].
    right. exists v. split; [symmetry; exact E|apply in_seq; lia].
Qed.

Lemma ffg_ins_scopes n reps r : r < reps ->
  map (rscope (ffg n reps)) (map (fun v => SS (r * n + v)) (seq 0 n)) = map (fun v => [v]) (seq 0 n).
Proof.
  intros Hr. rewrite map_map. apply map_ext_in. intros v Hv. apply in_seq in Hv.
  apply ffg_rscope; [exact Hr|lia].
Qed.

Lemma ffg_valid n reps : 2 <= n -> 1 <= reps -> Valid (ffg n reps).
Proof.
  intros Hn Hreps. unfold Valid.
  split; [simpl; congruence|].
  split; [intros r [E|[]]; subst r; rewrite ffg_length; lia|].
  split.
  { intros s Hs. apply ffg_regions_In in Hs; [|exact Hreps].
    destruct Hs as [E|[v [Hv E]]]; subst s; [|congruence].
    destruct n; [lia|simpl; congruence]. }
  split.
  { intros o ins Hp. simpl in Hp. apply in_map_iff in Hp. destruct Hp as [r [E Hr]].
    inversion E as [[Eo Eins]]. clear E. subst o ins. apply in_seq in Hr.
    assert (Hr' : r < reps) by lia.
    unfold PartOK. rewrite ffg_length.
    split; [lia|].
    split; [destruct n; [lia|simpl; congruence]|].
    split.
    { intros j Hj. apply in_map_iff in Hj. destruct Hj as [v [Ej Hv]]. apply in_seq in Hv.
      subst j. assert (r * n + n <= reps * n) by nia. lia. }
    split.
    { intros j Hj. apply in_map_iff in Hj. destruct Hj as [v [Ej Hv]]. apply in_seq in Hv.
      subst j. rewrite ffg_rscope by lia. congruence. }
    split.
    { intros p q Hpq Hq v. rewrite map_length, seq_length in Hq.
      rewrite !(nth_map_seq (fun v => SS (r * n + v))) by lia.
      rewrite !ffg_rscope by lia. simpl. lia. }
    { intros v. rewrite ffg_rscope0. rewrite in_seq. split.
      - intros Hv. exists (SS (r * n + v)). split.
        + apply in_map_iff. exists v. split; [reflexivity|apply in_seq; lia].
        + rewrite ffg_rscope by lia. left; reflexivity.
      - intros [j [Hj Hv]]. apply in_map_iff in Hj. destruct Hj as [u [Ej Hu]].
        apply in_seq in Hu. subst j. rewrite ffg_rscope in Hv by lia.
        destruct Hv as [E|[]]. subst v. lia. } }
  { intros v. split.
    - intros [r [[E|[]] Hv]]. subst r. exists (seq 0 n). split; [left; reflexivity|exact Hv].
    - intros [s [Hs Hv]]. exists 0. split; [left; reflexivity|]. rewrite ffg_rscope0.
      apply ffg_regions_In in Hs; [|exact Hreps].
      destruct Hs as [E|[u [Hu E]]]; subst s; [exact Hv|].
      destruct Hv as [E|[]]. subst v. apply in_seq. lia. }
Qed.

Lemma ffg_sd n reps : rg_sd (ffg n reps) = true.
Proof.
  apply rg_sd_spec. intros p q Hp Hq _.
  simpl in Hp, Hq. apply in_map_iff in Hp, Hq.
  destruct Hp as [r1 [E1 H1]]. destruct Hq as [r2 [E2 H2]]. subst p q. simpl snd.
  apply in_seq in H1, H2.
  rewrite !ffg_ins_scopes by lia. apply same_split_refl.
Qed.

Lemma ffg_vars n reps : 1 <= reps -> rg_vars (ffg n reps) = seq 0 n.
Proof.
  intros Hreps. unfold rg_vars. apply sorted_ext; [apply sunions_sorted|apply sorted_seq|].
  intros v. rewrite sunions_In. split.
  - intros [s [Hs Hv]]. apply ffg_regions_In in Hs; [|exact Hreps].
    destruct Hs as [E|[u [Hu E]]]; subst s; [exact Hv|].
    destruct Hv as [E|[]]. subst v. apply in_seq. lia.
  - intros Hv. exists (seq 0 n). split; [left; reflexivity|exact Hv].
Qed.

Theorem ff_valid n reps : 1 <= n -> 1 <= reps ->
  rg_valid (ff_rg n reps) = true /\ rg_sd (ff_rg n reps) = true /\ rg_vars (ff_rg n reps) = seq 0 n.
Proof.
  intros Hn Hreps. destruct (Nat.eq_dec n 1) as [E|E].
  - subst n. unfold ff_rg. simpl. repeat split; reflexivity.
  - rewrite ff_rg_big by exact E. split; [|split].
    + apply rg_valid_spec. apply ffg_valid; lia.
    + apply ffg_sd.
    + apply ffg_vars; exact Hreps.
Qed.

(* ================================================================== *)
(* 4. linear-tree region graph                                          *)
(* ================================================================== *)
Lemma firstn_snoc {A} (l : list A) (d : A) : forall k, k < length l ->
  firstn (SS k) l = firstn k l ++ [nth k l d].
Proof.
  induction l as [|x l IH]; intros k Hk; simpl in Hk; [lia|].
  destruct k as [|k]; [reflexivity|].
  change (x :: firstn (SS k) l = x :: (firstn k l ++ [nth k l d])).
  rewrite (IH k) by lia. reflexivity.
Qed.

Lemma In_firstn_nth {A} (l : list A) (d : A) : forall k v,
  In v (firstn k l) <-> exists i, i < k /\ i < length l /\ nth i l d = v.
Proof.
  induction l as [|x l IH]; intros k v.
  - rewrite firstn_nil. simpl. split; [intros []|intros [i [_ [H _]]]; lia].
  - destruct k as [|k].
    + simpl. split; [intros []|intros [i [H _]]; lia].
    + simpl. rewrite IH. split.
      * intros [E|[i [H1 [H2 H3]]]].
        -- exists 0. split; [lia|]. split; [lia|exact E].
        -- exists (SS i). split; [lia|]. split; [lia|exact H3].
      * intros [[|i] [H1 [H2 H3]]].
        -- left; exact H3.
        -- right. exists i. split; [lia|]. split; [lia|exact H3].
Qed.

Lemma In_firstn_In {A} (l : list A) k v : In v (firstn k l) -> In v l.
Proof.
  intros H. rewrite <- (firstn_skipn k l). apply in_app_iff. left; exact H.
Qed.

Lemma nth_notin_firstn (l : list nat) k : NoDup l -> k < length l ->
  ~ In (nth k l 0) (firstn k l).
Proof.
  intros Hnd Hk Hin. apply (In_firstn_nth l 0) in Hin. destruct Hin as [i [H1 [H2 H3]]].
  rewrite NoDup_nth in Hnd. specialize (Hnd i k H2 Hk H3). lia.
Qed.

Lemma firstn_set_eq_inj (l : list nat) a b : NoDup l -> a <= length l -> b <= length l ->
  set_eq (firstn a l) (firstn b l) -> a = b.
Proof.
  intros Hnd Ha Hb Heq.
  destruct (Nat.lt_trichotomy a b) as [Hlt|[E|Hlt]]; [|exact E|]; exfalso.
  - apply (nth_notin_firstn l a Hnd); [lia|]. apply Heq.
    apply (In_firstn_nth l 0). exists a. split; [lia|]. split; [lia|reflexivity].
  - apply (nth_notin_firstn l b Hnd); [lia|]. apply Heq.
    apply (In_firstn_nth l 0). exists b. split; [lia|]. split; [lia|reflexivity].
Qed.

Lemma nth_tl {A} (l : list A) k d : nth k (tl l) d = nth (SS k) l d.
Proof. destruct l as [|x l]; [destruct k; reflexivity|reflexivity]. Qed.

Lemma length_tl {A} (l : list A) : length (tl l) = length l - 1.
Proof. destruct l; simpl; lia. Qed.

Lemma prefixes_length ord : length (prefixes ord) = length ord.
Proof. unfold prefixes. rewrite map_length, seq_length. reflexivity. Qed.

Lemma lin_length ord : length (regions (linear_rg ord)) = length ord + (length ord - 1).
Proof.
  simpl. rewrite app_length, prefixes_length, map_length, length_tl. reflexivity.
Qed.

Lemma lin_rscope_lo ord k : k < length ord ->
  rscope (linear_rg ord) k = canon (firstn (SS k) ord).
Proof.
  intros Hk. unfold rscope. simpl. rewrite app_nth1 by (rewrite prefixes_length; exact Hk).
  unfold prefixes.
  rewrite (nth_indep _ [] ((fun k => canon (firstn (SS k) ord)) 0))
    by (rewrite map_length, seq_length; exact Hk).
  rewrite (map_nth (fun k => canon (firstn (SS k) ord))). rewrite seq_nth by exact Hk. reflexivity.
Qed.

Lemma lin_rscope_hi ord k : k < length ord - 1 ->
  rscope (linear_rg ord) (length ord + k) = [nth (SS k) ord 0].
Proof.
  intros Hk. unfold rscope. simpl. rewrite app_nth2 by (rewrite prefixes_length; lia).
  rewrite prefixes_length. replace (length ord + k - length ord) with k by lia.
  rewrite (nth_indep _ [] ((fun v => [v]) 0)) by (rewrite map_length, length_tl; exact Hk).
  rewrite (map_nth (fun v => [v])). rewrite nth_tl. reflexivity.
Qed.

Lemma lin_regions_In ord s : In s (regions (linear_rg ord)) ->
  s <> [] /\ forall v, In v s -> In v ord.
Proof.
  simpl. rewrite in_app_iff. intros [H|H].
  - unfold prefixes in H. apply in_map_iff in H. destruct H as [k [E Hk]]. apply in_seq in Hk.
    subst s. split.
    + apply canon_nonempty. destruct ord as [|x ord]; simpl in *; [lia|congruence].
    + intros v Hv. rewrite canon_In in Hv. apply In_firstn_In in Hv. exact Hv.
  - apply in_map_iff in H. destruct H as [u [E Hu]]. subst s. split; [congruence|].
    intros v [E|[]]. subst v. destruct ord as [|x ord]; [destruct Hu|]. right. exact Hu.
Qed.

Lemma lin_root_scope ord : ord <> [] -> forall v,
  In v (rscope (linear_rg ord) (length ord - 1)) <-> In v ord.
Proof.
  intros Hne v. assert (Hl : 0 < length ord) by (destruct ord; simpl; [congruence|lia]).
  rewrite lin_rscope_lo by lia. rewrite canon_In.
  replace (SS (length ord - 1)) with (length ord) by lia. rewrite firstn_all. tauto.
Qed.

Lemma lin_parts_In ord p : In p (parts (linear_rg ord)) ->
  exists k, k < length ord - 1 /\ p = (SS k, [k; length ord + k]).
Proof.
  simpl. intros H. apply in_map_iff in H. destruct H as [k [E Hk]]. apply in_seq in Hk.
  exists k. split; [lia|symmetry; exact E].
Qed.

Lemma lin_valid ord : NoDup ord -> ord <> [] -> Valid (linear_rg ord).
Proof.
  intros Hnd Hne. assert (Hl : 0 < length ord) by (destruct ord; simpl; [congruence|lia]).
  unfold Valid.
  split; [simpl; congruence|].
  split; [intros r [E|[]]; subst r; rewrite lin_length; lia|].
  split; [intros s Hs; apply (lin_regions_In ord s Hs)|].
  split.
  { intros o ins Hp. apply lin_parts_In in Hp. destruct Hp as [k [Hk E]].
    inversion E as [[Eo Eins]]. clear E. subst o ins.
    unfold PartOK. rewrite lin_length.
    split; [lia|]. split; [congruence|].
    split; [intros j [E|[E|[]]]; subst j; lia|].
    split.
    { intros j [E|[E|[]]]; subst j.
      - rewrite lin_rscope_lo by lia. apply canon_nonempty.
        destruct ord as [|x ord]; simpl in *; [lia|congruence].
      - rewrite lin_rscope_hi by lia. congruence. }
    split.
    { intros p q Hpq Hq v. simpl in Hq.
      assert (Hp0 : p = 0) by lia. assert (Hq1 : q = 1) by lia. subst p q. simpl nth.
      rewrite lin_rscope_lo by lia. rewrite lin_rscope_hi by lia. rewrite canon_In.
      intros Hv [E|[]]. subst v. apply (nth_notin_firstn ord (SS k) Hnd); [lia|exact Hv]. }
    { intros v. rewrite lin_rscope_lo by lia. rewrite canon_In.
      rewrite (firstn_snoc ord 0 (SS k)) by lia. rewrite in_app_iff. split.
      - intros [H|[E|[]]].
        + exists k. split; [left; reflexivity|]. rewrite lin_rscope_lo by lia.
          apply canon_In. exact H.
        + exists (length ord + k). split; [right; left; reflexivity|].
          rewrite lin_rscope_hi by lia. left. exact E.
      - intros [j [[E|[E|[]]] Hv]]; subst j.
        + rewrite lin_rscope_lo in Hv by lia. rewrite canon_In in Hv. left; exact Hv.
        + rewrite lin_rscope_hi in Hv by lia. destruct Hv as [E|[]]. right. left. exact E. } }
  { intros v. split.
    - intros [r [[E|[]] Hv]]. subst r. rewrite (lin_root_scope ord Hne) in Hv.
      exists (rscope (linear_rg ord) (length ord - 1)). split.
      + apply nth_In. rewrite lin_length. lia.
      + rewrite (lin_root_scope ord Hne). exact Hv.
    - intros [s [Hs Hv]]. exists (length ord - 1). split; [left; reflexivity|].
      rewrite (lin_root_scope ord Hne). apply (lin_regions_In ord s Hs). exact Hv. }
Qed.

Lemma lin_sd ord : NoDup ord -> rg_sd (linear_rg ord) = true.
Proof.
  intros Hnd. apply rg_sd_spec. intros p q Hp Hq Heq.
  apply lin_parts_In in Hp, Hq. destruct Hp as [k1 [Hk1 E1]]. destruct Hq as [k2 [Hk2 E2]].
  subst p q. simpl fst in Heq. simpl snd.
  rewrite (lin_rscope_lo ord (SS k1)) in Heq by lia.
  rewrite (lin_rscope_lo ord (SS k2)) in Heq by lia.
  assert (E : SS (SS k1) = SS (SS k2)).
  { apply (firstn_set_eq_inj ord); [exact Hnd|lia|lia|].
    intros v. rewrite <- (canon_In v (firstn (SS (SS k1)) ord)), <- (canon_In v (firstn (SS (SS k2)) ord)).
    apply Heq. }
  assert (E' : k1 = k2) by lia. subst k2. apply same_split_refl.
Qed.

Lemma lin_vars ord : ord <> [] -> forall v, In v (rg_vars (linear_rg ord)) <-> In v ord.
Proof.
  intros Hne v. assert (Hl : 0 < length ord) by (destruct ord; simpl; [congruence|lia]).
  unfold rg_vars. rewrite sunions_In. split.
  - intros [s [Hs Hv]]. apply (lin_regions_In ord s Hs). exact Hv.
  - intros Hv. exists (rscope (linear_rg ord) (length ord - 1)). split.
    + apply nth_In. rewrite lin_length. lia.
    + rewrite (lin_root_scope ord Hne). exact Hv.
Qed.

Theorem linear_valid ord : NoDup ord -> ord <> [] ->
  rg_valid (linear_rg ord) = true /\ rg_sd (linear_rg ord) = true /\
  (forall v, In v (rg_vars (linear_rg ord)) <-> In v ord).
Proof.
  intros Hnd Hne. split; [|split].
  - apply rg_valid_spec. apply lin_valid; assumption.
  - apply lin_sd; exact Hnd.
  - apply lin_vars; exact Hne.
Qed.

(* ================================================================== *)
Check rg_valid_spec.
Check rg_sd_spec.
Check ff_valid.
Check linear_valid.
Print Valid.
Print PartOK.
Print Assumptions rg_valid_spec.
Print Assumptions rg_sd_spec.
Print Assumptions ff_valid.
Print Assumptions linear_valid.
