(* C01 — the compiled circuit computes the denotation, in every semiring
   Property theorems only: each is closed by `exact <lemma>`; proofs live in the imported files. *)
From Coq Require Import List ZArith QArith Qcanon Ring_theory Field_theory Permutation Sorted.
Import ListNotations.
From CK Require Import Base.
From CK Require Import Circ.
From CK Require Import Hom.
From CK Require Import Gen.
From CK Require Import Fold.
From CK Require Import FoldCheck.
From CK Require Import Scalar.
From CK Require Import Tensor.
From CK Require Import Pexpr.
From CK Require Import Exec.
From CK Require Import Ops.
From CK Require Import Struct.
From CK Require Import Link.
Close Scope Qc_scope. Close Scope Q_scope. Close Scope Z_scope. Open Scope nat_scope.

(* evaluation commutes with every semiring homomorphism h: evaluating the h-image of a circuit gives the h-image of its values (h = exp from the log semiring, h = fst from dual numbers, h = conj); hence one denotation serves all semirings *)
Theorem C01_hom_eval :
  forall (R1 R2 : Type) (o1 : R1) (a1 m1 : R1 -> R1 -> R1) (o2 : R2) (a2 m2 : R2 -> R2 -> R2) 
           (D : Type) (h : R1 -> R2),
         (forall a b : R1, h (a1 a b) = a2 (h a) (h b)) ->
         (forall a b : R1, h (m1 a b) = m2 (h a) (h b)) ->
         h o1 = o2 ->
         forall (c : Circ.circuit R1 D) (y : Base.asg D),
         eval R2 o2 a2 m2 D (map_circuit R1 R2 D h c) y = map (map h) (eval R1 o1 a1 m1 D c y).
Proof. exact hom_eval. Qed.
Print Assumptions C01_hom_eval.

(* address-book evaluation of a checked folded graph equals plain evaluation, slice by slice *)
Theorem C01_folded_evaluation :
  forall (V : Type) (dV : V) (g : ugraph V) (F : fgraph),
         uwf_b (map (uins V) g) = true ->
         fwf_b F = true ->
         ab_check (map (uins V) g) F = true ->
         forall Mi : nat,
         Mi < length F ->
         forall s : nat,
         s < fsize F Mi ->
         nth s (nth Mi (feval V dV g F) []) dV = nth (nth s (members (nth Mi F dfm)) 0) (ueval V dV g) dV.
Proof. exact checked_fold_sound. Qed.
Print Assumptions C01_folded_evaluation.

(* the executable denotation den_all used as reference by the correspondence check is the semantic evaluation of the interpreted circuit (algebraic fragment) *)
Theorem C01_denotation_is_semantic :
  forall (c : circuit) (y : asg),
         frag c = true -> den_all c y = (if inrange c y then Some (SEval (interp c) (afun y)) else None).
Proof. exact den_all_spec. Qed.
Print Assumptions C01_denotation_is_semantic.

(* pre-evaluating parameter expressions does not change the denotation (any layer kind) *)
Theorem C01_prep_invariant :
  forall (c : circuit) (y : asg), den_all (prep c) y = den_all c y.
Proof. exact den_prep. Qed.
Print Assumptions C01_prep_invariant.
