"""C09 — operators refuse invalid inputs and results keep the promised structure."""
import itertools
import traceback

import numpy as np

import cirkit.symbolic.functional as SF
from cirkit.symbolic import layers as L
from cirkit.symbolic import parameters as P
from cirkit.symbolic.circuit import Circuit, StructuralPropertyError, are_compatible
from cirkit.utils.scope import Scope

import export
import gen
from cases import CaseSet, rng_for
from props.C08 import random_dag, spec_preds, spec_sd_ok

PID = "C09"


def poly(v, K):
    return L.PolynomialLayer(Scope([v]), K, degree=1, coeff=P.Parameter.from_input(P.ConstantParameter(K, 2, value=1.0)))


def cat(v, K):
    return L.CategoricalLayer(Scope([v]), K, num_categories=2, probs=P.Parameter.from_input(P.ConstantParameter(K, 2, value=0.5)))


def emb(v, K):
    return L.EmbeddingLayer(Scope([v]), K, num_states=2, weight=P.Parameter.from_input(P.ConstantParameter(K, 2, value=1.0)))


ERR = {None: 0, "StructuralPropertyError": 1, "ValueError": 2, "NotImplementedError": 3, "OperatorSignatureNotFound": 4, "AssertionError": 5}


def call(f, *a, **k):
    try:
        return f(*a, **k), None
    except Exception as e:  # noqa
        return None, type(e).__name__


def check_result(rep, desc, op, res, scope, nout, operands=()):
    """result is smooth and decomposable with the documented scope and number of outputs"""
    sm, de = spec_preds(res)
    if not (sm and de) or not (res.is_smooth and res.is_decomposable):
        rep.violation(f"{op}-result-structure", f"{op} returned a circuit that is not smooth and decomposable", {"case": desc})
    if sorted(res.scope._set) != sorted(scope):
        rep.violation(f"{op}-result-scope", f"{op} returned a circuit with the wrong scope", {"case": desc, "observed": sorted(res.scope._set), "expected": sorted(scope)})
    if len(res.outputs) != nout:
        rep.violation(f"{op}-result-outputs", f"{op} returned a circuit with the wrong number of outputs", {"case": desc, "observed": len(res.outputs), "expected": nout})


def one_case(rep, cs, seed, i):
    rng = rng_for(seed, PID, i)
    op = rng.choice(["integrate", "integrate", "differentiate", "multiply", "multiply", "evidence", "conjugate"])
    fac = poly if op == "differentiate" else emb
    valid = rng.random() < 0.5
    vs = gen.VAR_SETS[rng.choice(["dense", "sparse"])](rng.choice([1, 2, 3]))
    a = random_dag(rng, vs, rng.randint(1, 6), K=1, bias_valid=0.97 if valid else 0.4, input_factory=fac,
                   consts=op in ("integrate", "multiply", "evidence"))   # no conjugation / differentiation rule exists for constant layers
    if a is None:
        return
    sm, de = spec_preds(a)
    desc = {"i": i, "seed": seed, "op": op, "smooth": sm, "dec": de, "n": len(a.layers)}
    rep.count("op:" + op)
    rep.count(f"operand smooth={int(sm)} dec={int(de)}")
    scope = sorted(a.scope._set)
    if not scope:
        return      # a circuit of constants only: no variable to integrate / observe
    ex = export.Exporter()
    term, impl = None, None
    if op == "integrate":
        arg = rng.choice(["ok", "ok", "empty", "outside"])
        if arg == "ok":
            Z = sorted(rng.sample(scope, rng.randint(1, len(scope))))
        elif arg == "empty":
            Z = []
        else:
            Z = sorted(set(scope[:1]) | {max(scope) + 3})
        desc["Z"] = Z
        res, err = call(SF.integrate, a, Scope(Z))
        if not (sm and de):
            if err != "StructuralPropertyError":
                rep.violation("integrate-no-structural-refusal", "integrate did not raise StructuralPropertyError on a circuit that is not smooth and decomposable",
                              {"case": desc, "observed": err or "returned a circuit"})
        elif arg != "ok":
            if err != "ValueError":
                rep.violation("integrate-invalid-scope-accepted", "integrate accepted an empty scope or variables outside the circuit scope",
                              {"case": desc, "observed": err or "returned a circuit"})
        elif res is None:
            rep.violation("integrate-refuses-valid", "integrate raised on a valid operand", {"case": desc, "observed": err})
        else:
            check_result(rep, desc, op, res, [v for v in scope if v not in Z], len(a.outputs))
            if a.is_structured_decomposable and not res.is_structured_decomposable:
                rep.violation("integrate-loses-sd", "integrate lost structured decomposability", {"case": desc})
        impl = [ERR.get(err, 9)]
        term = f"[res_code (integrate_m {export.ex_nats(Z)} {ex.circuit(a)})]"
    elif op == "differentiate":
        order = rng.choice([1, 2, 0, -1])
        desc["order"] = order
        res, err = call(SF.differentiate, a, order=order)
        if not (sm and de):
            if err != "StructuralPropertyError":
                rep.violation("differentiate-no-structural-refusal", "differentiate did not raise StructuralPropertyError on a circuit that is not smooth and decomposable",
                              {"case": desc, "observed": err or "returned a circuit"})
        elif order <= 0:
            if err != "ValueError":
                rep.violation("differentiate-order-accepted", "differentiate accepted a non-positive order", {"case": desc, "observed": err or "returned a circuit"})
        elif res is None:
            rep.violation("differentiate-refuses-valid", "differentiate raised on a valid operand", {"case": desc, "observed": err})
        else:
            check_result(rep, desc, op, res, scope, sum(len(a.layer_scope(o)._set) + 1 for o in a.outputs))
        impl = [ERR.get(err, 9)]
        term = f"[res_code (differentiate_m {max(order, 0)} {ex.circuit(a)})]"
    elif op == "multiply":
        b = random_dag(rng, vs, rng.randint(1, 6), K=1, bias_valid=0.97, input_factory=fac) if rng.random() < 0.7 else a
        if b is None:
            return
        res, err = call(SF.multiply, a, b)
        okab = all(spec_preds(x) == (True, True) for x in (a, b)) and spec_sd_ok([a, b])
        desc["compatible_spec"] = okab
        rep.count(f"pair compatible={int(okab)}")
        if sorted(a.scope._set) == sorted(b.scope._set) and not okab and res is not None:
            rep.violation("multiply-incompatible-accepted", "multiply returned a circuit for a pair that is not compatible", {"case": desc})
        if res is not None:
            check_result(rep, desc, op, res, scope, len(a.outputs) * len(b.outputs))
            if a.is_structured_decomposable and b.is_structured_decomposable:
                if not res.is_structured_decomposable:
                    rep.violation("multiply-loses-sd", "the product of structured-decomposable operands is not structured-decomposable", {"case": desc})
                if not (are_compatible(res, a) and are_compatible(res, b) and are_compatible(a, res)):
                    rep.violation("multiply-result-incompatible", "the product is not compatible with its operands", {"case": desc})
        impl = [0 if res is not None else 1]
        term = f"[match multiply_m {ex.circuit(a)} {ex.circuit(b)} with Ok _ => 0 | Err _ => 1 end]"
    elif op == "evidence":
        arg = rng.choice(["ok", "ok", "empty", "outside"])
        if arg == "ok":
            obs = {v: rng.randrange(2) for v in rng.sample(scope, rng.randint(1, len(scope)))}
        elif arg == "empty":
            obs = {}
        else:
            obs = {max(scope) + 2: 0}
        desc["obs"] = obs
        res, err = call(SF.evidence, a, obs)
        if arg != "ok":
            if err != "ValueError":
                rep.violation("evidence-invalid-accepted", "evidence accepted an empty observation or variables outside the scope", {"case": desc, "observed": err or "returned a circuit"})
        elif res is None:
            rep.violation("evidence-refuses-valid", "evidence raised on a valid observation", {"case": desc, "observed": err})
        else:
            if sm and de:
                check_result(rep, desc, op, res, [v for v in scope if v not in obs], len(a.outputs))
        impl = [ERR.get(err, 9)]
        term = f"[res_code (evidence_m {export.ex_asg(obs)} {ex.circuit(a)})]"
    else:
        res, err = call(SF.conjugate, a)
        if res is None:
            rep.violation("conjugate-raises", "conjugate raised", {"case": desc, "observed": err})
        else:
            flags = lambda c: [c.is_smooth, c.is_decomposable, c.is_structured_decomposable, c.is_omni_compatible]
            if flags(res) != flags(a) or sorted(res.scope._set) != scope or len(res.outputs) != len(a.outputs):
                rep.violation("conjugate-changes-structure", "conjugate changed a structural flag, the scope or the number of outputs",
                              {"case": desc, "before": flags(a), "after": flags(res)})
        impl = [ERR.get(err, 9)]
        term = f"[res_code (conjugate_m {ex.circuit(a)})]"

    def interp(res_, desc=desc, impl=impl):
        if res_ != impl:
            rep.violation("refusal-corr", "the model operator and cirkit disagree on whether / how the operand is refused (0 ok, 1 structural, 2 value, 3 not implemented, 4 no rule)",
                          {"case": desc, "model": res_, "implementation": impl}, found_input=False)

    cs.add(desc, term, interp, nontrivial=desc["n"] >= 3)


def overlap_case(rep, cs, seed, i):
    """multi-output operands whose outputs are defined over overlapping but different scopes (chains x_a*x_b, x_b*x_c, ...),
    optionally under sum layers: the product must be refused or be smooth and decomposable"""
    rng = rng_for(seed, PID + "ov", i)
    K = 1

    def mk():
        nv = rng.choice([3, 3, 4])
        vs = list(range(nv))
        layers, ins = [], {}
        inp = {v: emb(v, K) for v in vs}
        layers.extend(inp.values())
        outs = []
        for _ in range(rng.choice([2, 2, 3])):
            sub = rng.sample(vs, rng.choice([2, 2, 3]) if nv > 3 else 2)
            kind = rng.choice(["had", "had", "kron"])
            pl = L.HadamardLayer(K, arity=len(sub)) if kind == "had" else L.KroneckerLayer(K, arity=len(sub))
            layers.append(pl)
            ins[pl] = [inp[v] for v in sub]
            if rng.random() < 0.4:
                sl = L.SumLayer(K, K, arity=1, weight=P.Parameter.from_input(P.ConstantParameter(K, K, value=1.0)))
                layers.append(sl)
                ins[sl] = [pl]
                pl = sl
            outs.append(pl)
        used = set()
        stack = list(outs)
        while stack:
            x = stack.pop()
            if x not in used:
                used.add(x)
                stack.extend(ins.get(x, []))
        layers = [l for l in layers if l in used]
        return Circuit(layers, {l: v for l, v in ins.items() if l in used}, outs)

    try:
        a = mk()
        b = a if rng.random() < 0.5 else mk()
    except Exception as e:
        rep.count("overlap-build-failed:" + type(e).__name__)
        return
    sm, de = spec_preds(a)
    desc = {"i": i, "seed": seed, "op": "multiply", "family": "overlapping-output-scopes", "n": len(a.layers),
            "out_scopes": [[sorted(c.layer_scope(o)._set) for o in c.outputs] for c in (a, b)]}
    rep.count("family:overlapping-output-scopes")
    res, err = call(SF.multiply, a, b)
    rep.count("overlap:" + (err or "returned"))
    if res is not None:
        check_result(rep, desc, "multiply", res, sorted(a.scope._set), len(a.outputs) * len(b.outputs))
    ex = export.Exporter()
    impl = [0 if res is not None else 1]
    term = f"[match multiply_m {ex.circuit(a)} {ex.circuit(b)} with Ok _ => 0 | Err _ => 1 end]"

    def interp(res_, desc=desc, impl=impl):
        if res_ != impl:
            rep.violation("refusal-corr", "the model operator and cirkit disagree on whether the pair is refused",
                          {"case": desc, "model": res_, "implementation": impl}, found_input=False)

    cs.add(desc, term, interp, nontrivial=True)


def const_case(rep, cs, seed, i):
    """Hadamard products that list empty-scope (constant) inputs at different positions in the two operands"""
    rng = rng_for(seed, PID + "const", i)
    K = 1

    def const():
        return L.ConstantValueLayer(K, log_space=False, value=P.Parameter.from_input(P.ConstantParameter(K, value=2.0)))

    def mk(vs):
        layers, ins = [], {}
        parts = [emb(v, K) for v in vs] + [const() for _ in range(rng.choice([1, 1, 2]))]
        rng.shuffle(parts)
        layers.extend(parts)
        pl = L.HadamardLayer(K, arity=len(parts))
        layers.append(pl)
        ins[pl] = parts
        out = pl
        if rng.random() < 0.5:
            sl = L.SumLayer(K, K, arity=1, weight=P.Parameter.from_input(P.ConstantParameter(K, K, value=1.0)))
            layers.append(sl)
            ins[sl] = [pl]
            out = sl
        return Circuit(layers, ins, [out])

    vs = list(range(rng.choice([1, 2, 3])))
    try:
        a, b = mk(vs), mk(vs)
    except Exception as e:
        rep.count("const-build-failed:" + type(e).__name__)
        return
    desc = {"i": i, "seed": seed, "op": "multiply", "family": "constant-inputs", "n": len(a.layers)}
    rep.count("family:constant-inputs")
    res, err = call(SF.multiply, a, b)
    rep.count("const:" + (err or "returned"))
    if res is not None:
        check_result(rep, desc, "multiply", res, sorted(a.scope._set), 1)
    ex = export.Exporter()
    impl = [0 if res is not None else 1]
    term = (f"[match multiply_m {ex.circuit(a)} {ex.circuit(b)} with Ok p => (if is_smooth p && is_decomposable p then 0 else 7) | Err _ => 1 end]")

    def interp(res_, desc=desc, impl=impl):
        if res_ != impl:
            rep.violation("refusal-corr", "the model operator and cirkit disagree on the product of circuits with constant inputs (0 ok, 1 refused, 7 model result not decomposable)",
                          {"case": desc, "model": res_, "implementation": impl}, found_input=False)

    cs.add(desc, term, interp, nontrivial=True)


def query_case(rep, cs, seed, i):
    """query-side checks: IntegrateQuery / SamplingQuery refuse circuits that are not smooth and decomposable, integration scopes
    that are not a subset of the circuit scope (also ids lying in a hole of a non-contiguous scope), malformed masks, non-positive
    sample counts; valid requests are accepted"""
    import torch
    import evalc
    from cirkit.backend.torch.queries import IntegrateQuery, SamplingQuery
    rng = rng_for(seed, PID + "query", i)
    valid = rng.random() < 0.7
    vs = gen.VAR_SETS[rng.choice(["dense", "sparse", "sparse", "big", "shift"])](rng.choice([2, 3, 3]))
    a = random_dag(rng, vs, rng.randint(1, 5), K=1, bias_valid=0.98 if valid else 0.4, input_factory=cat)
    if a is None or not a.scope._set:
        return
    sm, de = spec_preds(a)
    scope = sorted(a.scope._set)
    desc = {"i": i, "seed": seed, "op": "query", "family": "query", "smooth": sm, "dec": de, "n": len(a.layers), "scope": scope}
    rep.count("family:query")
    fold, opt = rng.choice(evalc.FLAGS)
    try:
        cc = evalc.make_ctx("sum-product", fold, opt).compile(a)
    except Exception as e:
        rep.count("query-compile-failed:" + type(e).__name__)
        return
    iq, e1 = call(IntegrateQuery, cc)
    sq, e2 = call(SamplingQuery, cc)
    for nm, q, er in (("IntegrateQuery", iq, e1), ("SamplingQuery", sq, e2)):
        if not (sm and de) and er != "ValueError":
            rep.violation("query-no-structural-refusal", f"{nm} accepted a circuit that is not smooth and decomposable", {"case": desc, "observed": er or "constructed"})
        if sm and de and q is None:
            rep.violation("query-refuses-valid", f"{nm} refused a smooth and decomposable circuit", {"case": desc, "observed": er})
    term, impl = None, None
    if sm and de and iq is not None:
        W = max(scope) + 1
        holes = [v for v in range(W) if v not in scope]
        kind = rng.choice(["ok", "ok", "above", "hole", "hole", "mixed", "list", "mask-width", "mask-dtype", "batch"])
        if kind in ("hole", "mixed") and not holes:
            kind = "above"
        B = rng.choice([1, 2, 3])
        x = torch.zeros((B, W), dtype=torch.long)
        bad = True
        if kind == "ok":
            Z, bad = sorted(rng.sample(scope, rng.randint(1, len(scope)))), False
            arg = Scope(Z)
        elif kind == "above":
            Z = [scope[0], W + rng.choice([0, 1, 3])]
            arg = Scope(Z)
        elif kind == "hole":
            Z = [rng.choice(holes)]
            arg = Scope(Z)
        elif kind == "mixed":
            Z = sorted({scope[-1], rng.choice(holes)})
            arg = Scope(Z)
        elif kind == "list":
            Z = [rng.choice(holes)] if holes and rng.random() < 0.6 else [scope[0]]
            bad = Z[0] not in scope
            arg = [Scope([scope[0]])] * (B - 1) + [Scope(Z)]
        elif kind == "mask-width":
            Z, arg = None, torch.zeros((B, W + 1), dtype=torch.bool)
        elif kind == "mask-dtype":
            Z, arg = None, torch.zeros((B, W), dtype=torch.long)
        else:
            Z, arg = None, [Scope([scope[0]])] * (B + 2)
        desc.update({"kind": kind, "Z": Z, "batch": B})
        rep.count("query:" + kind)
        res, err = call(iq, x, integrate_vars=arg)
        if bad and err != "ValueError":
            rep.violation("query-invalid-accepted", "IntegrateQuery accepted an invalid integration request (variables outside the circuit scope, "
                          "malformed mask or wrong number of scopes)", {"case": desc, "observed": err or f"returned a tensor of shape {tuple(res.shape)}"})
        if not bad and res is None:
            rep.violation("query-refuses-valid", "IntegrateQuery refused a valid integration scope", {"case": desc, "observed": err})
        if not bad and res is not None and tuple(res.shape) != (B, len(a.outputs), 1):
            rep.violation("query-shape", "IntegrateQuery returned a tensor of the wrong shape", {"case": desc, "observed": list(res.shape)})
        _, err0 = call(sq, 0) if sq is not None else (None, "ValueError")
        if err0 != "ValueError":
            rep.violation("query-invalid-accepted", "SamplingQuery accepted a non-positive number of samples", {"case": desc, "observed": err0 or "returned"})
        if Z is not None and kind != "list":
            ex = export.Exporter()
            impl = [0 if err is None else 2 if err == "ValueError" else 9]
            term = f"[res_code (integrate_m {export.ex_nats(Z)} {ex.circuit(a)})]"
    if term is None:
        rep.case(desc, True)
        return

    def interp(res_, desc=desc, impl=impl):
        if res_ != impl:
            rep.violation("refusal-corr", "the model operator integrate_m and IntegrateQuery disagree on whether the integration scope is refused (0 ok, 2 value error)",
                          {"case": desc, "model": res_, "implementation": impl}, found_input=False)

    cs.add(desc, term, interp, nontrivial=True)


def kron_case(rep, cs, seed, i):
    """Kronecker (and Hadamard) products listing the same input scopes in the same or in a different order in the two operands:
    the product must be refused or be smooth and decomposable"""
    rng = rng_for(seed, PID + "kron", i)
    n = rng.choice([2, 2, 3])
    vs = gen.VAR_SETS[rng.choice(["dense", "sparse"])](n)
    ptype = rng.choice(["kron", "kron", "had"])

    def mk(order):
        parts = [emb(v, 1) for v in order]
        pl = L.KroneckerLayer(1, arity=n) if ptype == "kron" else L.HadamardLayer(1, arity=n)
        sl = L.SumLayer(1, 1, arity=1, weight=P.Parameter.from_input(P.ConstantParameter(1, 1, value=1.0)))
        return Circuit(parts + [pl, sl], {pl: parts, sl: [pl]}, [sl])

    o1 = list(vs)
    o2 = list(vs)
    swapped = rng.random() < 0.6
    if swapped:
        while o2 == o1:
            rng.shuffle(o2)
    a, b = mk(o1), mk(o2)
    desc = {"i": i, "seed": seed, "op": "multiply", "family": "product-input-order", "ptype": ptype, "orders": [o1, o2], "n": len(a.layers)}
    rep.count(f"family:product-input-order:{ptype}:{'swapped' if swapped else 'aligned'}")
    res, err = call(SF.multiply, a, b)
    rep.count("kron:" + (err or "returned"))
    if res is not None:
        check_result(rep, desc, "multiply", res, sorted(a.scope._set), 1)
    elif not swapped or ptype == "had":
        rep.violation("multiply-refuses-valid", "multiply refused two compatible circuits whose products are aligned (or commutative)", {"case": desc, "observed": err})
    ex = export.Exporter()
    impl = [0 if res is not None else 1]
    term = f"[match multiply_m {ex.circuit(a)} {ex.circuit(b)} with Ok p => (if is_smooth p && is_decomposable p then 0 else 7) | Err _ => 1 end]"

    def interp(res_, desc=desc, impl=impl):
        if res_ != impl:
            rep.violation("refusal-corr", "the model operator and cirkit disagree on the product of circuits whose product layers list their inputs in different orders "
                          "(0 ok, 1 refused, 7 model result not decomposable)", {"case": desc, "model": res_, "implementation": impl}, found_input=False)

    cs.add(desc, term, interp, nontrivial=True)


def run(rep, tier, seed, replay=None):
    n = 300 if tier == "quick" else 5000
    cs = CaseSet(rep, PID)
    if replay is not None:
        c = replay["replay"].get("case", {})
        {"overlapping-output-scopes": overlap_case, "constant-inputs": const_case, "query": query_case, "product-input-order": kron_case}.get(c.get("family"), one_case)(rep, cs, c.get("seed", seed), c.get("i", 0))
        cs.run()
        return
    for i in range(n):
        one_case(rep, cs, seed, i)
    for i in range(max(30, n // 8)):
        overlap_case(rep, cs, seed, i)
    for i in range(max(20, n // 12)):
        const_case(rep, cs, seed, i)
    for i in range(max(40, n // 6)):
        query_case(rep, cs, seed, i)
    for i in range(max(20, n // 12)):
        kron_case(rep, cs, seed, i)
    cs.run(shard=max(10, 300 // 14))  # shard size of the quick tier: thorough runs use more files, not longer ones
