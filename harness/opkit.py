"""Shared pieces for the operator properties (C03-C07, C09, C10): direct oracles on the compiled
implementation and Coq-term builders."""
import itertools

import numpy as np
import torch

import evalc
import export
from cases import close, close_sem


def compiled_pair(ctx, derived, *operands):
    """compile `derived` (operands are compiled first by the pipeline) and return compiled circuits"""
    cd = ctx.compile(derived)
    return cd, [ctx.get_compiled_circuit(o) for o in operands]


def eval_on(ctx, sc, ys, sem, width):
    cc = ctx.compile(sc)
    return evalc.evaluate(cc, sc, ys, sem, width=width)


def kron_outputs(a, b):
    """a: (B,O1,K1), b: (B,O2,K2) -> (B,O1*O2,K1*K2) with output (i,j) at i*O2+j, units in Kronecker order"""
    B = a.shape[0]
    r = np.einsum("bik,bjl->bijkl", a, b)
    return r.reshape(B, a.shape[1] * b.shape[1], a.shape[2] * b.shape[2])


def oracle_multiply(sc1, sc2, sp, ys, sem, fold, opt, ctx=None):
    ctx = ctx or evalc.make_ctx(sem, fold, opt)
    w = max(evalc.width_of(sc1), evalc.width_of(sc2))
    got = eval_on(ctx, sp, ys, sem, w)
    a = eval_on(ctx, sc1, ys, sem, w)
    b = eval_on(ctx, sc2, ys, sem, w)
    exp = kron_outputs(a, b)
    return close_sem(got, exp, sem, rtol=1e-6, atol=1e-8), {"observed": got.tolist(), "expected": exp.tolist()}


def oracle_evidence(sc, se, obs, ys, sem, fold, opt, ctx=None):
    ctx = ctx or evalc.make_ctx(sem, fold, opt)
    w = evalc.width_of(sc)
    got = eval_on(ctx, se, ys, sem, w)
    exp = eval_on(ctx, sc, [{**y, **obs} for y in ys], sem, w)
    return close_sem(got, exp, sem), {"observed": got.tolist(), "expected": exp.tolist()}


def oracle_concat(scs, scat, ys, sem, fold, opt, ctx=None):
    ctx = ctx or evalc.make_ctx(sem, fold, opt)
    w = max(evalc.width_of(s) for s in scs)
    got = eval_on(ctx, scat, ys, sem, w)
    exp = np.concatenate([eval_on(ctx, s, ys, sem, w) for s in scs], axis=1)
    return close_sem(got, exp, sem), {"observed": got.tolist(), "expected": exp.tolist()}


def oracle_conjugate(sc, scj, ys, sem, fold, opt, ctx=None):
    ctx = ctx or evalc.make_ctx(sem, fold, opt)
    w = evalc.width_of(sc)
    got = eval_on(ctx, scj, ys, sem, w)
    exp = np.conj(eval_on(ctx, sc, ys, sem, w))
    return close_sem(got, exp, sem), {"observed": got.tolist(), "expected": exp.tolist()}


def oracle_differentiate(sc, sd, order, ys, fold, opt):
    """sum-product only (autograd through the compiled circuit w.r.t. the inputs)"""
    sem = "sum-product"
    ctx = evalc.make_ctx(sem, fold, opt)
    w = evalc.width_of(sc)
    cd = ctx.compile(sd)
    cc = ctx.get_compiled_circuit(sc)
    got = evalc.evaluate(cd, sd, ys, sem, width=w)
    x = evalc.to_batch(ys, w).clone().requires_grad_(True)
    out = cc(x)  # (B, O, K)
    B, O, K = out.shape
    exp_rows = []
    for o in range(O):
        vs = sorted(sc.layer_scope(sc.outputs[o])._set)
        for v in vs:
            cols = []
            for k in range(K):
                f = out[:, o, k]
                g = f
                for _ in range(order):
                    (gx,) = torch.autograd.grad(g.sum(), x, create_graph=True, allow_unused=True)
                    g = gx[:, v] if gx is not None else torch.zeros(B, dtype=out.dtype)
                    if not g.requires_grad:
                        g = g + 0 * x[:, 0]
                cols.append(g.detach().numpy())
            exp_rows.append(np.stack(cols, axis=1))
        exp_rows.append(out[:, o, :].detach().numpy())
    exp = np.stack(exp_rows, axis=1)
    return close(got, exp, rtol=1e-6, atol=1e-8), {"observed": got.tolist(), "expected": exp.tolist()}


def torch_vals(sc_list, target, ys, sem, fold, opt, width=None):
    """compiled values of `target` (operands compiled in the same context) as a Coq term, or None"""
    try:
        ctx = evalc.make_ctx(sem, fold, opt)
        w = width if width is not None else max([evalc.width_of(s) for s in sc_list + [target]])
        v = eval_on(ctx, target, ys, sem, w)
        return export.ex_vals(v)
    except Exception:
        return None
