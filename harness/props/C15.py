"""C15 — sampling draws from the distribution the circuit encodes."""
import itertools
import math
import traceback

import numpy as np
import torch

from cirkit.backend.torch.queries import SamplingQuery
from cirkit.symbolic import parameters as P

import evalc
import export
import gen
from cases import CaseSet, rng_for, close

PID = "C15"


def chi2_quantile(df, p=1e-9):
    """upper quantile of chi-square by Wilson-Hilferty (conservative: +20%)"""
    z = 5.9978  # standard normal upper 1e-9 quantile
    df = max(df, 1)
    q = df * (1 - 2 / (9 * df) + z * math.sqrt(2 / (9 * df))) ** 3
    return 1.2 * q + 10


class _G:
    pass


def shared_circuit(rng):
    """a normalised mixture of two products over the same variables that SHARE input layers and split the scope differently:
    root = Sum([in_0 * ... * in_{n-1},  in_a * Sum(prod of the others)])  (smooth, decomposable, not structured-decomposable)"""
    from cirkit.symbolic import layers as L
    from cirkit.symbolic import parameters as P
    from cirkit.symbolic.circuit import Circuit
    from cirkit.utils.scope import Scope
    n = rng.choice([2, 3, 3, 4])
    N = rng.choice([2, 3])
    vs = gen.VAR_SETS[rng.choice(["dense", "dense", "sparse"])](n)
    g = _G()
    g.doms = {v: ("disc", N) for v in vs}

    def sm(shape):
        return P.Parameter.from_unary(P.SoftmaxParameter(shape, axis=1), gen.tensor(gen.dy_array(rng, shape, -4, 4)))

    ins = {v: L.CategoricalLayer(Scope([v]), 1, num_categories=N, probs=sm((1, N))) for v in vs}
    layers = list(ins.values())
    conn = {}
    order = list(vs)
    if rng.random() < 0.5:
        rng.shuffle(order)
    p1 = L.HadamardLayer(1, arity=n)
    conn[p1] = [ins[v] for v in order]
    layers.append(p1)
    a = rng.choice(vs)
    rest = [v for v in vs if v != a]
    if len(rest) >= 2:
        pin = L.HadamardLayer(1, arity=len(rest))
        conn[pin] = [ins[v] for v in rest]
        sin = L.SumLayer(1, 1, arity=1, weight=sm((1, 1)))
        conn[sin] = [pin]
        layers += [pin, sin]
        other = sin
    else:
        other = ins[rest[0]]
    p2 = L.HadamardLayer(1, arity=2)
    conn[p2] = [ins[a], other] if rng.random() < 0.5 else [other, ins[a]]
    root = L.SumLayer(1, 1, arity=2, weight=sm((1, 2)))
    conn[root] = [p1, p2]
    layers += [p2, root]
    g.desc = {"family": "shared-inputs", "vars": list(vs), "kinds": ["cat_softmax"] * n, "sums": 2, "prods": 3, "arity": [2], "K": 1, "nout": 1}
    return Circuit(layers, conn, [root]), g


def one_case(rep, cs, seed, i, nsamples):
    rng = rng_for(seed, PID, i)
    torch.manual_seed(seed * 104729 + i)
    o = gen.random_opts(rng, kinds=["cat_softmax", "cat_probs"], monotone=True, normalized=True, nout=1, K=1)
    o["nvars"] = rng.choice([1, 2, 2, 3])
    o["varset"] = rng.choice(["dense", "dense", "sparse", "shift"])
    if i % 4 == 3:
        sc, g = shared_circuit(rng)
        o["prod"] = "had"
    else:
        sc, g = gen.gen_circuit(rng, **o)
    fold, opt = rng.choice(evalc.FLAGS)
    if i % 4 == 3 and rng.random() < 0.6:
        fold = True
    desc = {"i": i, "seed": seed, "fold": fold, "opt": opt, "nsamples": nsamples, **g.desc}
    rep.count(f"flags:{int(fold)}{int(opt)}")
    rep.count("varset:" + o["varset"])
    for a in g.desc["arity"]:
        rep.count(f"sum-arity:{a}")
    rep.count("prod:" + o["prod"])
    scope = sorted(sc.scope._set)
    sem = "sum-product"
    try:
        ctx = evalc.make_ctx(sem, fold, opt)
        cc = ctx.compile(sc)
        try:
            samples, _mix = SamplingQuery(cc)(num_samples=nsamples)
        except TypeError as e:
            # documented refusals: fused layers without a sampling rule
            if "not implemented" in str(e) or "not supported" in str(e):
                rep.count("refused:" + str(e)[:40])
                rep.case(desc, False)
                return
            raise
        samples = samples.detach().numpy()
    except Exception as e:
        rep.violation("sampling-exception:" + type(e).__name__, "the sampling query raised on a normalised monotonic circuit",
                      {"case": desc, "exception": repr(e)[:300], "traceback": traceback.format_exc()[-1500:]})
        return
    if samples.shape[0] != nsamples or samples.ndim != 2:
        rep.violation("sample-shape", "the sampling query did not return one row per requested sample", {"case": desc, "observed": list(samples.shape)})
        return
    # complete assignments: one column per variable (indexed like the circuit's inputs, by variable id)
    w = evalc.width_of(sc)
    if samples.shape[1] == w:
        cols = {v: samples[:, v] for v in scope}
    elif samples.shape[1] == len(scope):
        cols = {v: samples[:, k] for k, v in enumerate(scope)}
    else:
        rep.violation("sample-width", "the samples do not have one column per variable", {"case": desc, "observed": list(samples.shape)})
        return
    for v in scope:
        if np.any(cols[v] < 0) or np.any(cols[v] >= g.doms[v][1]) or np.any(cols[v] != np.round(cols[v])):
            rep.violation("sample-column", "a variable's column holds values outside the domain of that variable's input layer", {"case": desc, "variable": v})
            return
    xs = [dict(zip(scope, c)) for c in itertools.product(*[range(g.doms[v][1]) for v in scope])]
    key = {tuple(x[v] for v in scope): k for k, x in enumerate(xs)}
    counts = [0] * len(xs)
    for r in range(nsamples):
        counts[key[tuple(int(cols[v][r]) for v in scope)]] += 1
    probs = evalc.evaluate(cc, sc, xs, sem, width=w)[:, 0, 0].real
    # every returned sample has positive probability
    for k, c_ in enumerate(counts):
        if c_ > 0 and probs[k] <= 0:
            rep.violation("sample-zero-probability", "a returned sample has probability zero under the circuit", {"case": desc, "sample": xs[k]})
            return
    exp = nsamples * probs
    stat = float(np.sum((np.array(counts) - exp) ** 2 / np.maximum(exp, 1e-300) * (exp > 0)))
    thr = chi2_quantile(len(xs) - 1)
    if stat > thr:
        rep.violation("sample-distribution", "empirical frequencies are incompatible with the circuit's probabilities (chi-square, p < 1e-9)",
                      {"case": desc, "statistic": stat, "threshold": thr, "counts": counts, "expected": exp.tolist()})
    # ---- the model decides the same test with its exact probabilities ----
    ex = export.Exporter()
    try:
        tc = ex.circuit(sc)
    except export.ExportError as e:
        rep.violation("export-error", str(e), {"case": desc}, found_input=False)
        return
    cz = "[" + "; ".join(f"{c_}%Z" for c_ in counts) + "]"
    term = f"[chi2_check {tc} {export.ex_asgs(xs)} {cz} {nsamples}%Z {export.ex_scalar(float(thr))}]"

    def interp(res, desc=desc, counts=counts):
        (r,) = res
        rep.count(f"coq:chi2={r}")
        if r == 0:
            rep.violation("sample-distribution-model", "the samples are incompatible with the probabilities the model assigns (chi-square p < 1e-9, or a zero-probability sample)",
                          {"case": desc, "counts": counts})
        if r == 3:
            rep.violation("not-normalised-model", "the model's probabilities of a normalised circuit do not sum to one", {"case": desc}, found_input=False)

    cs.add(desc, term, interp, nontrivial=g.desc["sums"] >= 1 and g.desc["prods"] >= 1)


def run(rep, tier, seed, replay=None):
    n = 60 if tier == "quick" else 500
    ns = 4000 if tier == "quick" else 100000
    cs = CaseSet(rep, PID)
    if replay is not None:
        c = replay["replay"].get("case", {})
        one_case(rep, cs, c.get("seed", seed), c.get("i", 0), c.get("nsamples", ns))
        cs.run()
        return
    for i in range(n):
        one_case(rep, cs, seed, i, ns)
    cs.run(shard=max(4, 60 // 14))  # shard size of the quick tier: thorough runs use more files, not longer ones
