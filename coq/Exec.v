(* Exec.v — executable model of symbolic circuits (cirkit.symbolic.layers / circuit):
   syntactic layers with parameter expressions, the function a circuit denotes ([den]),
   scopes and the structural predicates. Definitions only. *)
From Coq Require Import ZArith QArith Qcanon List Bool Arith Lia.
Import ListNotations.
From CK Require Import Base Scalar Tensor Pexpr.
Close Scope Qc_scope. Close Scope Q_scope. Close Scope Z_scope.
Open Scope nat_scope.

(* ---------- scopes as strictly increasing lists ---------- *)
Fixpoint sinsert (v : nat) (s : list nat) : list nat :=
  match s with
  | [] => [v]
  | x :: r => if v <? x then v :: s else if v =? x then s else x :: sinsert v r
  end.
Definition canon (s : list nat) : list nat := fold_right sinsert [] s.
Definition smem (v : nat) (s : list nat) : bool := existsb (Nat.eqb v) s.
Definition sunion (a b : list nat) : list nat := fold_right sinsert b a.
Definition sinter (a b : list nat) : list nat := filter (fun v => smem v b) a.
Definition sdiff (a b : list nat) : list nat := filter (fun v => negb (smem v b)) a.
Definition ssubset (a b : list nat) : bool := forallb (fun v => smem v b) a.
Definition sdisjoint (a b : list nat) : bool := forallb (fun v => negb (smem v b)) a.
Definition seqb (a b : list nat) : bool := list_eqb a b.   (* on canonical lists *)
Definition sempty (a : list nat) : bool := match a with [] => true | _ => false end.
Definition sunions (ss : list (list nat)) : list nat := fold_right sunion [] ss.

(* ---------- layers ---------- *)
Inductive layer :=
| LEmb (v K N : nat) (w : pexpr)
| LCat (v K N : nat) (logits : bool) (p : pexpr)
| LBin (v K n : nat) (logits : bool) (p : pexpr)
| LGau (v K : nat) (mu sd : pexpr) (lp : option pexpr)
| LPoly (v K deg : nat) (c : pexpr)
| LConst (K : nat) (logsp : bool) (val : pexpr)
| LEvi (inner : layer) (obs : pexpr)
| LSum (Ki Ko ar : nat) (w : pexpr)
| LHad (Ki ar : nat)
| LKron (Ki ar : nat).

Record circuit := mkC { nodes : list (layer * list nat); outs : list nat }.

Definition is_input (l : layer) : bool :=
  match l with LSum _ _ _ _ | LHad _ _ | LKron _ _ => false | _ => true end.
Definition is_sum (l : layer) : bool := match l with LSum _ _ _ _ => true | _ => false end.
Definition is_prod (l : layer) : bool := match l with LHad _ _ | LKron _ _ => true | _ => false end.

Definition in_scope (l : layer) : list nat :=
  match l with
  | LEmb v _ _ _ | LCat v _ _ _ _ | LBin v _ _ _ _ | LGau v _ _ _ _ | LPoly v _ _ _ => [v]
  | _ => []
  end.
Fixpoint out_units (l : layer) : nat :=
  match l with
  | LEmb _ K _ _ | LCat _ K _ _ _ | LBin _ K _ _ _ | LGau _ K _ _ _ | LPoly _ K _ _ | LConst K _ _ => K
  | LEvi inner _ => out_units inner
  | LSum _ Ko _ _ => Ko
  | LHad Ki _ => Ki
  | LKron Ki ar => Nat.pow Ki ar
  end.
Definition in_units (l : layer) : nat :=
  match l with LSum Ki _ _ _ | LHad Ki _ | LKron Ki _ => Ki | _ => 0 end.
Definition arity (l : layer) : nat :=
  match l with LSum _ _ ar _ | LHad _ ar | LKron _ ar => ar | _ => 0 end.

Fixpoint layer_params (l : layer) : list pexpr :=
  match l with
  | LEmb _ _ _ w | LSum _ _ _ w => [w]
  | LCat _ _ _ _ p | LBin _ _ _ _ p => [p]
  | LGau _ _ mu sd lp => mu :: sd :: match lp with Some e => [e] | None => [] end
  | LPoly _ _ _ c => [c]
  | LConst _ _ v => [v]
  | LEvi inner obs => obs :: layer_params inner
  | LHad _ _ | LKron _ _ => []
  end.
Definition learnable_ids (c : circuit) : list nat :=
  canon (flat_map (fun n => flat_map plearnable (layer_params (fst n))) (nodes c)).

(* ---------- assignments ---------- *)
Definition asg := list (nat * C).
Fixpoint lookup (v : nat) (y : asg) : C :=
  match y with [] => c0 | (u, x) :: r => if Nat.eqb u v then x else lookup v r end.
Definition cidx (x : C) : nat := Z.to_nat (Qnum (this (fst x)) / Zpos (Qden (this (fst x)))).

Fixpoint cpow (x : C) (n : nat) : C := match n with O => c1 | Datatypes.S k => cmul x (cpow x k) end.
Fixpoint binom (n k : nat) : Z :=
  match n, k with
  | _, O => 1%Z
  | O, Datatypes.S _ => 0%Z
  | Datatypes.S n', Datatypes.S k' => (binom n' k' + binom n' k)%Z
  end.
Definition cofZ (z : Z) : C := cre (Q2Qc (z # 1)).

(* ---------- evaluation of input layers ---------- *)
Fixpoint in_eval (l : layer) (y : asg) : option cvec :=
  match l with
  | LEmb v K N w =>
      do W <- peval w;
      let x := cidx (lookup v y) in
      if x <? N then Some (map (fun row => nth x row c0) (tmat c0 W)) else None
  | LCat v K N logits p =>
      do W <- peval p;
      let x := cidx (lookup v y) in
      if x <? N then
        let vals := map (fun row => nth x row c0) (tmat c0 W) in
        if logits then omap cexp vals else Some vals
      else None
  | LBin v K n logits p =>
      do P <- peval p;
      do ps <- (if logits then omap csigmoid (tvec c0 P) else Some (tvec c0 P));
      let x := cidx (lookup v y) in
      if x <=? n then
        Some (map (fun q => cmul (cofZ (binom n x)) (cmul (cpow q x) (cpow (csub c1 q) (n - x)))) ps)
      else None
  | LGau v K mu sd lp =>
      do M <- peval mu; do S <- peval sd;
      do L <- match lp with Some e => do t <- peval e; Some (tvec c0 t) | None => Some (map (fun _ => c0) (tvec c0 M)) end;
      let x := lookup v y in
      do l2p <- clog (cre qtwopi);
      omap (fun p => let '(m, s, lz) := p in
              do ls <- clog s;
              let d := csub x m in
              cexp (cadd (csub (csub (cmul (copp chalf) (cround (cdiv (cmul d d) (cmul s s)))) ls) (cmul chalf l2p)) lz))
           (combine (combine (tvec c0 M) (tvec c0 S)) L)
  | LPoly v K deg c =>
      do Cf <- peval c;
      let x := lookup v y in
      Some (map (fun row => vhorner row x) (tmat c0 Cf))
  | LConst K logsp val =>
      do V <- peval val;
      if logsp then omap cexp (tvec c0 V) else Some (tvec c0 V)
  | LEvi inner obs =>
      do O <- peval obs;
      match in_scope inner with
      | [v] => in_eval inner ((v, nth 0 (tvec c0 O) c0) :: y)
      | _ => None
      end
  | _ => None
  end.

Definition hadn (xs : list cvec) : cvec := match xs with [] => [] | v :: vs => fold_left vhad vs v end.
Definition kronn (xs : list cvec) : cvec := match xs with [] => [] | v :: vs => fold_left vkron vs v end.

Definition node_eval (l : layer) (y : asg) (ins : list cvec) : option cvec :=
  match l with
  | LSum Ki Ko ar w => do W <- peval w; Some (map (fun row => vdot row (concat ins)) (tmat c0 W))
  | LHad _ _ => Some (hadn ins)
  | LKron _ _ => Some (kronn ins)
  | _ => in_eval l y
  end.

Fixpoint den_from (ns : list (layer * list nat)) (y : asg) (acc : list cvec) : option (list cvec) :=
  match ns with
  | [] => Some acc
  | (l, ins) :: r =>
      do v <- node_eval l y (map (fun j => nth j acc []) ins);
      den_from r y (acc ++ [v])
  end.
Definition den_all (c : circuit) (y : asg) : option (list cvec) := den_from (nodes c) y [].
(* the function the circuit denotes: one vector per output layer, in declared order *)
Definition den (c : circuit) (y : asg) : option (list cvec) :=
  do vals <- den_all c y; Some (map (fun o => nth o vals []) (outs c)).

(* ---------- parameter pre-evaluation (speeds up repeated evaluation; same denotation) ---------- *)
Definition pval (e : pexpr) : option pexpr := do t <- peval e; Some (PTen 0 false t).
Fixpoint prep_layer (l : layer) : option layer :=
  match l with
  | LEmb v K N w => do w' <- pval w; Some (LEmb v K N w')
  | LCat v K N lg p => do p' <- pval p; Some (LCat v K N lg p')
  | LBin v K n lg p => do p' <- pval p; Some (LBin v K n lg p')
  | LGau v K mu sd lp =>
      do mu' <- pval mu; do sd' <- pval sd;
      match lp with
      | Some e => do e' <- pval e; Some (LGau v K mu' sd' (Some e'))
      | None => Some (LGau v K mu' sd' None)
      end
  | LPoly v K d c => do c' <- pval c; Some (LPoly v K d c')
  | LConst K lsp v => do v' <- pval v; Some (LConst K lsp v')
  | LEvi inner obs => do i' <- prep_layer inner; do o' <- pval obs; Some (LEvi i' o')
  | LSum Ki Ko ar w => do w' <- pval w; Some (LSum Ki Ko ar w')
  | LHad _ _ | LKron _ _ => Some l
  end.
Definition prep (c : circuit) : circuit :=
  match omap (fun n => do l <- prep_layer (fst n); Some (l, snd n)) (nodes c) with
  | Some ns => mkC ns (outs c)
  | None => c
  end.

(* ---------- scopes, well-formedness, structural predicates ---------- *)
Fixpoint scopes_from (ns : list (layer * list nat)) (acc : list (list nat)) : list (list nat) :=
  match ns with
  | [] => acc
  | (l, ins) :: r =>
      let s := if is_input l then in_scope l else sunions (map (fun j => nth j acc []) ins) in
      scopes_from r (acc ++ [s])
  end.
Definition scopes (c : circuit) : list (list nat) := scopes_from (nodes c) [].
Definition cscope (c : circuit) : list nat := sunions (map (fun o => nth o (scopes c) []) (outs c)).

Fixpoint wf_from (ns : list (layer * list nat)) (pos : nat) (us : list nat) : bool :=
  match ns with
  | [] => true
  | (l, ins) :: r =>
      (if is_input l then sempty ins
       else (length ins =? arity l) && negb (sempty ins)
            && forallb (fun j => (j <? pos) && (nth j us 0 =? in_units l)) ins)
      && wf_from r (Datatypes.S pos) (us ++ [out_units l])
  end.
Definition wf (c : circuit) : bool :=
  wf_from (nodes c) 0 [] && forallb (fun o => o <? length (nodes c)) (outs c).

Fixpoint all_pairs {X} (f : X -> X -> bool) (l : list X) : bool :=
  match l with [] => true | x :: r => forallb (f x) r && all_pairs f r end.

Definition is_smooth (c : circuit) : bool :=
  let sc := scopes c in
  forallb (fun p => let '(i, (l, ins)) := p in
             if is_sum l then forallb (fun j => seqb (nth j sc []) (nth i sc [])) ins else true)
          (combine (seq 0 (length (nodes c))) (nodes c)).
Definition is_decomposable (c : circuit) : bool :=
  let sc := scopes c in
  forallb (fun n => let '(l, ins) := n in
             if is_prod l then all_pairs sdisjoint (map (fun j => nth j sc []) ins) else true)
          (nodes c).

(* total order on canonical scopes (lexicographic), used to canonicalise factorizations *)
Fixpoint slex_lt (a b : list nat) : bool :=
  match a, b with
  | [], [] => false
  | [], _ => true
  | _, [] => false
  | x :: a', y :: b' => if x <? y then true else if y <? x then false else slex_lt a' b'
  end.
Fixpoint ssort_insert (s : list nat) (l : list (list nat)) : list (list nat) :=
  match l with
  | [] => [s]
  | x :: r => if slex_lt s x then s :: l else if seqb s x then l else x :: ssort_insert s r
  end.
Definition fcanon (f : list (list nat)) : list (list nat) :=
  fold_right ssort_insert [] (filter (fun s => negb (sempty s)) f).
Definition feqb (f g : list (list nat)) : bool :=
  (length f =? length g) && forallb (fun p => seqb (fst p) (snd p)) (combine f g).

(* scope factorizations: (scope, canonical factorization) of every product with >1 non-empty factor *)
Definition factorizations (c : circuit) : list (list nat * list (list nat)) :=
  let sc := scopes c in
  flat_map (fun p => let '(i, (l, ins)) := p in
              if is_prod l then
                let f := fcanon (map (fun j => nth j sc []) ins) in
                if 1 <? length f then [(nth i sc [], f)] else []
              else [])
           (combine (seq 0 (length (nodes c))) (nodes c)).
Definition facts_of (s : list nat) (fs : list (list nat * list (list nat))) : list (list (list nat)) :=
  map snd (filter (fun p => seqb (fst p) s) fs).
Definition all_same (fs : list (list (list nat))) : bool :=
  match fs with [] => true | f :: r => forallb (feqb f) r end.
Definition is_sd (c : circuit) : bool :=
  is_smooth c && is_decomposable c &&
  let fs := factorizations c in forallb (fun p => all_same (facts_of (fst p) fs)) fs.
(* compatible: smooth, decomposable, and every scope decomposed in either circuit is decomposed in
   one and the same way across both circuits *)
Definition compatible (a b : circuit) : bool :=
  is_smooth a && is_decomposable a && is_smooth b && is_decomposable b &&
  let fa := factorizations a in let fb := factorizations b in
  forallb (fun p => all_same (facts_of (fst p) (fa ++ fb))) (fa ++ fb).

(* ---------- normalised parameterisations (C12) ---------- *)
Definition is_softmax_rows (e : pexpr) : bool :=
  match e with
  | PUn (USoftmax 1) (PTen _ _ _) => true
  | PUn UMixing (PUn (USoftmax 1) (PTen _ _ _)) => true
  | _ => false
  end.
Definition norm_input (l : layer) : bool :=
  match l with
  | LCat _ _ _ false (PUn (USoftmax 1) _) => true
  | LBin _ _ _ false (PUn USigmoid _) => true
  | LGau _ _ _ _ None => true
  | _ => false
  end.
Definition normalised_struct (c : circuit) : bool :=
  forallb (fun n => match fst n with
                    | LSum _ _ _ w => is_softmax_rows w
                    | LHad _ _ | LKron _ _ => true
                    | l => norm_input l
                    end) (nodes c).
