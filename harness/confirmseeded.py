"""Confirm a seeded change independently: in a scratch worktree of /repo apply <dir>/patch.diff, run the full existing
test-suite (must pass), run <dir>/demo.py on the changed tree (must fail) and on a clean tree (must pass).
Usage: confirmseeded.py <dir> [--skip-tests]"""
import json
import os
import shutil
import subprocess
import sys

REPO = "/repo"


def sh(cmd, **kw):
    return subprocess.run(cmd, shell=True, capture_output=True, text=True, **kw)


def main():
    d = os.path.abspath(sys.argv[1])
    skip = "--skip-tests" in sys.argv
    wt = "/tmp/confirm_wt_" + os.path.basename(d)
    sh(f"git -C {REPO} worktree remove --force {wt}")
    shutil.rmtree(wt, ignore_errors=True)
    r = sh(f"git -C {REPO} worktree add -q --detach {wt} HEAD")
    assert r.returncode == 0, r.stderr
    res = {}
    try:
        clean = sh(f"PYTHONHASHSEED=0 PYTHONPATH={wt} timeout 300 /venv/bin/python {d}/demo.py")
        res["demo_clean_exit"] = clean.returncode
        r = sh(f"git -C {wt} apply {d}/patch.diff")
        res["patch_applies"] = r.returncode == 0
        if r.returncode == 0:
            mut = sh(f"PYTHONHASHSEED=0 PYTHONPATH={wt} timeout 300 /venv/bin/python {d}/demo.py")
            res["demo_mutated_exit"] = mut.returncode
            res["demo_mutated_tail"] = (mut.stdout + mut.stderr)[-300:]
            if not skip:
                t = sh(f"cd {wt} && OMP_NUM_THREADS=2 PYTHONPATH={wt} /venv/bin/python -m pytest -q -p no:cacheprovider --timeout=900 -n 8 tests 2>&1 | tail -2")
                res["tests"] = t.stdout.strip()
    finally:
        sh(f"git -C {REPO} worktree remove --force {wt}")
        shutil.rmtree(wt, ignore_errors=True)
    print(json.dumps(res, indent=1))
    return res


if __name__ == "__main__":
    main()
