(* C12 — circuits built with normalised parameterisations are normalised
   Property theorems only: each is closed by `exact <lemma>`; proofs live in the imported files. *)
From Coq Require Import List ZArith QArith Qcanon Ring_theory Field_theory Permutation Sorted.
Import ListNotations.
From CK Require Import Base.
From CK Require Import Circ.
From CK Require Import Integrate.
From CK Require Import Normalised.
Close Scope Qc_scope. Close Scope Q_scope. Close Scope Z_scope. Open Scope nat_scope.

(* if every input node integrates to one over its scope and every sum row sums to one, every node of the integrated circuit evaluates to the all-ones vector *)
Theorem C12_partition_one :
  forall (R : Type) (rO rI : R) (radd rmul : R -> R -> R),
         semi_ring_theory rO rI radd rmul eq ->
         forall (D : Type) (Int : nat -> (D -> R) -> R) (Z : list nat) (c : circuit R D),
         ok R rO D c ->
         (forall n : node R D, In n c -> norm_node R rO rI radd D Int Z (units R D c) n) ->
         forall (y : asg D) (o : nat),
         o < length c ->
         nth o (eval R rO radd rmul D (integrate R rO D Int Z c) y) [] = ones R rI (nth o (units R D c) 0).
Proof. exact normalised_partition. Qed.
Print Assumptions C12_partition_one.

(* ... hence the partition function (iterated integral of every unit of every node) equals one, for every parameter value *)
Theorem C12_partition_function :
  forall (R : Type) (rO rI : R) (radd rmul : R -> R -> R),
         semi_ring_theory rO rI radd rmul eq ->
         forall (D : Type) (Int : nat -> (D -> R) -> R),
         (forall (v : nat) (f g : D -> R), (forall d : D, f d = g d) -> Int v f = Int v g) ->
         (forall (v : nat) (f g : D -> R), Int v (fun d : D => radd (f d) (g d)) = radd (Int v f) (Int v g)) ->
         (forall (v : nat) (c : R) (f : D -> R), Int v (fun d : D => rmul c (f d)) = rmul c (Int v f)) ->
         forall (Z : list nat) (c : circuit R D),
         ok R rO D c ->
         (forall n : node R D, In n c -> norm_node R rO rI radd D Int Z (units R D c) n) ->
         forall (y : asg D) (o k : nat),
         o < length c ->
         k < nth o (units R D c) 0 ->
         IntL R D Int (zs_of Z (nth o (scopes R D c) []))
           (fun y' : asg D => nth k (nth o (eval R rO radd rmul D c y') []) rO) y = rI.
Proof. exact normalised_partition_IntL. Qed.
Print Assumptions C12_partition_function.

(* softmax rows sum to one over any field *)
Theorem C12_softmax_rows :
  forall (R : Type) (rO rI : R) (radd rmul rsub : R -> R -> R) (ropp : R -> R) 
           (rdiv : R -> R -> R) (rinv : R -> R),
         field_theory rO rI radd rmul rsub ropp rdiv rinv eq ->
         forall e : vec R,
         vsum R rO radd e <> rO -> vsum R rO radd (map (fun x : R => rdiv x (vsum R rO radd e)) e) = rI.
Proof. exact softmax_row_sum. Qed.
Print Assumptions C12_softmax_rows.

(* a mixing-weight row sums to the sum of its mixing coefficients *)
Theorem C12_mixing_rows :
  forall (R : Type) (rO rI : R) (radd rmul : R -> R -> R),
         semi_ring_theory rO rI radd rmul eq ->
         forall (K k : nat) (row : vec R),
         k < K -> vsum R rO radd (mixing_row R rO K k row) = vsum R rO radd row.
Proof. exact mixing_row_sum. Qed.
Print Assumptions C12_mixing_rows.

(* circuits with non-negative weights and input functions are non-negative *)
Theorem C12_nonnegative :
  forall (R : Type) (rO : R) (radd rmul : R -> R -> R) (D : Type) (nonneg : R -> Prop),
         nonneg rO ->
         (forall a b : R, nonneg a -> nonneg b -> nonneg (radd a b)) ->
         (forall a b : R, nonneg a -> nonneg b -> nonneg (rmul a b)) ->
         forall c : circuit R D,
         (forall (W : list (vec R)) (ins : list nat),
          In (NSum R D W ins) c -> forall w : vec R, In w W -> forall x : R, In x w -> nonneg x) ->
         (forall i : inp R D,
          In (NIn R D i) c -> forall (y : asg D) (k : nat), nonneg (nth k (ifun R D i y) rO)) ->
         forall (y : asg D) (o k : nat), nonneg (nth k (nth o (eval R rO radd rmul D c y) []) rO).
Proof. exact monotone_nonneg. Qed.
Print Assumptions C12_nonnegative.

(* circuits with positive weights and input functions are positive (finite log) *)
Theorem C12_positive :
  forall (R : Type) (rO rI : R) (radd rmul : R -> R -> R),
         semi_ring_theory rO rI radd rmul eq ->
         forall (D : Type) (pos : R -> Prop),
         (forall a b : R, pos a -> pos b -> pos (radd a b)) ->
         (forall a b : R, pos a -> pos b -> pos (rmul a b)) ->
         forall c : circuit R D,
         ok R rO D c ->
         (forall (W : list (vec R)) (ins : list nat),
          In (NSum R D W ins) c ->
          W <> [] /\ (forall w : vec R, In w W -> w <> [] /\ (forall x : R, In x w -> pos x))) ->
         (forall i : inp R D,
          In (NIn R D i) c ->
          0 < iunits R D i /\ (forall (y : asg D) (k : nat), k < iunits R D i -> pos (nth k (ifun R D i y) rO))) ->
         forall (y : asg D) (o k : nat),
         o < length c -> k < nth o (units R D c) 0 -> pos (nth k (nth o (eval R rO radd rmul D c y) []) rO).
Proof. exact monotone_pos. Qed.
Print Assumptions C12_positive.
