"""C13 — gradients of compiled circuits are correct and flag-independent."""
import traceback

import numpy as np
import torch

import evalc
import export
import gen
from cases import CaseSet, rng_for, pick_semiring, close
from props.C02 import tensor_leaves

PID = "C13"
KINDS = ["emb", "cat_logits", "cat_softmax", "gau", "poly"]
H = 2.0 ** -17


def linear(out, sem):
    return out if sem == "sum-product" else torch.exp(out)


def grads(cc, state, leaves, x, sem, wrt_input=None):
    """d linear-output[b,o,k] / d (tensor entry) for every symbolic leaf, mapped back through the registry;
    returns dict id(leaf) -> array (B,O,K,*shape) (and d/dx if wrt_input is a column)"""
    xin = x.clone().requires_grad_(wrt_input is not None)
    out = linear(cc(xin), sem)
    if out.is_complex():
        out = out.real
    B, O, K = out.shape
    res = {id(p): np.zeros((B, O, K, *p.shape)) for p in leaves}
    gx = np.zeros((B, O, K)) if wrt_input is not None else None
    tens = {}
    for p in leaves:
        t, k = state.retrieve_compiled_parameter(p)
        tens[id(p)] = (t._ptensor, k)
    for b in range(B):
        for o in range(O):
            for k_ in range(K):
                ins = [tens[id(p)][0] for p in leaves] + ([xin] if wrt_input is not None else [])
                gs = torch.autograd.grad(out[b, o, k_], ins, retain_graph=True, allow_unused=True)
                for p, g_ in zip(leaves, gs):
                    if g_ is not None:
                        gg = g_[tens[id(p)][1]]
                        res[id(p)][b, o, k_] = (gg.real if gg.is_complex() else gg).detach().numpy()
                if wrt_input is not None and gs[-1] is not None:
                    gx[b, o, k_] = gs[-1][b, wrt_input].item()
    return res, gx, out.detach().numpy()


def one_case(rep, cs, seed, i):
    rng = rng_for(seed, PID, i)
    monotone = rng.random() < 0.6
    o = gen.random_opts(rng, kinds=KINDS, monotone=monotone, strict=True)
    o["nvars"] = min(o["nvars"], 3)
    sc, g = gen.gen_circuit(rng, **o)
    sem = pick_semiring(rng, monotone)
    desc = {"i": i, "seed": seed, "sem": sem, **g.desc}
    rep.count("semiring:" + sem)
    scope = sorted(sc.scope._set)
    ys = gen.sample_inputs(rng, g.doms, scope, 2, exhaustive_limit=0, nonneg=(sem == "lse-sum"))
    # some tensors are frozen (learnable=False): learnable and frozen tensors of equal shape must stay apart under folding
    allt = tensor_leaves([sc])
    if len(allt) >= 2 and rng.random() < 0.4:
        for p_ in rng.sample(allt, rng.randint(1, len(allt) - 1)):
            p_.learnable = False
        rep.count("some-frozen")
    leaves = [p for p in allt if p.learnable]
    if not leaves:
        return
    # tiny but non-zero values (2^-70 of an O(1) value): far below machine epsilon, yet the derivative is O(1).
    # Either an embedding entry that the first sample actually reads, or a whole row of a directly parameterised sum weight.
    tiny = None
    if rng.random() < 0.35:
        from cirkit.symbolic import layers as L_
        from cirkit.symbolic import parameters as P
        from cirkit.symbolic.initializers import ConstantTensorInitializer
        direct = lambda par: len(par.nodes) == 1 and isinstance(par.nodes[0], P.TensorParameter) and not isinstance(par.nodes[0], P.ConstantParameter) \
            and par.nodes[0].learnable and isinstance(par.nodes[0].initializer, ConstantTensorInitializer) \
            and isinstance(par.nodes[0].initializer.value, np.ndarray) and not np.iscomplexobj(par.nodes[0].initializer.value)
        embs = [l for l in sc.layers if isinstance(l, L_.EmbeddingLayer) and direct(l.weight)]
        sums = [l for l in sc.layers if isinstance(l, L_.SumLayer) and direct(l.weight)]
        pick = rng.choice((["emb"] if embs else []) + (["row"] if sums else [])) if (embs or sums) else None
        if pick == "emb":
            l = rng.choice(embs)
            pt_ = l.weight.nodes[0]
            v_ = np.array(pt_.initializer.value, dtype=np.float64)
            var = sorted(l.scope._set)[0]
            idx_ = (rng.randrange(v_.shape[0]), int(ys[0][var]))
            if v_[idx_] != 0:
                v_[idx_] *= 2.0 ** -70
                pt_.initializer = ConstantTensorInitializer(v_)
                tiny = (pt_, idx_)
        elif pick == "row":
            l = rng.choice(sums)
            pt_ = l.weight.nodes[0]
            v_ = np.array(pt_.initializer.value, dtype=np.float64)
            r_ = rng.randrange(v_.shape[0])
            if np.all(v_[r_] != 0):
                v_[r_] *= 2.0 ** -70
                pt_.initializer = ConstantTensorInitializer(v_)
                tiny = (pt_, (r_, rng.randrange(v_.shape[1])))
        if tiny is not None:
            desc["tiny"] = [pick, list(tiny[1])]
            rep.count("tiny:" + pick)
    w = evalc.width_of(sc)
    x = evalc.to_batch(ys, w)
    cont = [v for v in scope if g.doms[v][0] != "disc"]
    xcol = rng.choice(cont) if cont and rng.random() < 0.5 else None
    allg = {}
    try:
        for fold, opt in evalc.FLAGS:
            ctx = evalc.make_ctx(sem, fold, opt)
            cc = ctx.compile(sc)
            allg[(fold, opt)] = grads(cc, ctx._compiler.state, leaves, x, sem, wrt_input=xcol)
        # reference: central finite differences of the plain sum-product compilation
        ctxr = evalc.make_ctx("sum-product" if monotone or True else sem, False, False)
        ref_sem = "sum-product"
        ccr = ctxr.compile(sc)
        st = ctxr._compiler.state
        p = rng.choice(leaves)
        idx = tuple(rng.randrange(d) for d in p.shape)
        if tiny is not None:
            p, idx = tiny
        t, k = st.retrieve_compiled_parameter(p)
        with torch.no_grad():
            t._ptensor[(k, *idx)] += H
            fp = evalc.evaluate(ccr, sc, ys, ref_sem, width=w)
            t._ptensor[(k, *idx)] -= 2 * H
            fm = evalc.evaluate(ccr, sc, ys, ref_sem, width=w)
            t._ptensor[(k, *idx)] += H
        fd = np.real(fp - fm) / (2 * H)
    except Exception as e:
        rep.violation("gradient-exception:" + type(e).__name__, "computing gradients raised",
                      {"case": desc, "exception": repr(e)[:300], "traceback": traceback.format_exc()[-1500:]})
        return
    base = allg[(False, False)]
    val = base[2]
    if sem != "sum-product" and np.any(val == 0):
        # an exactly-zero value has no logarithm: log-space evaluation cannot carry a derivative through it (not a defect)
        rep.count("skipped:exact-zero-value-in-log-space")
        return
    for fl, (gd, gx, v) in allg.items():
        for pl in leaves:
            a, b = base[0][id(pl)], gd[id(pl)]
            if not np.all(np.isfinite(b)):
                if np.all(np.abs(val) > 1e-300):
                    rep.violation("gradient-non-finite", "a gradient is not finite although the function value is non-zero", {"case": desc, "flags": list(fl)})
                continue
            if not close(a, b, rtol=1e-6, atol=1e-8):
                rep.violation("gradient-flags-disagree", "the gradient w.r.t. a symbolic tensor parameter differs between fold/optimize settings",
                              {"case": desc, "flags": list(fl), "shape": list(pl.shape)})
                break
        if gx is not None and base[1] is not None and not close(base[1], gx, rtol=1e-6, atol=1e-8):
            rep.violation("input-gradient-flags-disagree", "the gradient w.r.t. a continuous input differs between fold/optimize settings", {"case": desc, "flags": list(fl)})
    ag = base[0][id(p)][(slice(None), slice(None), slice(None), *idx)]
    if np.all(np.isfinite(ag)) and not close(ag, fd, rtol=1e-4, atol=1e-6):
        rep.violation("gradient-vs-finite-differences", "autograd gradient differs from central finite differences of the reference evaluation",
                      {"case": desc, "entry": list(idx), "observed": ag.tolist(), "expected": fd.tolist()})
    if not np.all(np.isfinite(ag)):
        return
    # ---- model: exact central difference quotient of the denotation ----
    base_val = export.Exporter().leaf_value(p)

    def lv(sign):
        def f(q):
            if q is p:
                v = np.array(base_val, dtype=float)
                v[idx] += sign * H
                return v
            return None
        return f

    try:
        tp = export.Exporter(leafval=lv(+1)).circuit(sc)
        tm = export.Exporter(leafval=lv(-1)).circuit(sc)
    except export.ExportError as e:
        rep.violation("export-error", str(e), {"case": desc}, found_input=False)
        return
    fl = rng.choice(evalc.FLAGS)
    agf = allg[fl][0][id(p)][(slice(None), slice(None), slice(None), *idx)]
    term = f"[fd_check {tp} {tm} {export.ex_asgs(ys)} (q 65536 1) {export.ex_vals(agf)}]"

    def interp(res, desc=desc, fl=fl):
        (r,) = res
        rep.count(f"coq:fd={r}")
        if r == 0:
            rep.violation("gradient-vs-denotation", "autograd gradient differs from the difference quotient of the model's exact denotation",
                          {"case": desc, "flags": list(fl), "entry": list(idx)})

    cs.add(desc, term, interp, nontrivial=g.desc["sums"] >= 1 and g.desc["prods"] >= 1)


def derived_case(rep, seed, i):
    """gradients THROUGH derived circuits: d multiply(c, c)(x) / d (tensor of c), and of integrate(multiply(c, c)) through an
    evidence-free scalar, under every fold / optimize setting, against central finite differences of an unfolded sum-product
    compilation (the derived circuits read the operand's tensors through pointer parameters)"""
    import cirkit.symbolic.functional as SF
    rng = rng_for(seed, PID + "derived", i)
    monotone = rng.random() < 0.6
    o = gen.random_opts(rng, kinds=["emb", "cat_logits"], monotone=monotone, strict=True, regular=True, sd=True, nout=1)
    o["nvars"] = rng.choice([1, 2, 2, 3])
    if o["prod"] == "any":
        o["prod"] = "had"
    o["K"] = rng.choice([1, 2])
    o["max_alt"] = 2
    c, g = gen.gen_circuit(rng, **o)
    try:
        sp = SF.multiply(c, c)
    except Exception:
        return
    sem = pick_semiring(rng, monotone)
    desc = {"i": i, "seed": seed, "family": "derived", "sem": sem, **g.desc}
    rep.count("family:derived")
    rep.case(desc, True)
    scope = sorted(c.scope._set)
    ys = gen.sample_inputs(rng, g.doms, scope, 2, exhaustive_limit=0, nonneg=(sem == "lse-sum"))
    leaves = [p for p in tensor_leaves([c]) if p.learnable]
    if not leaves:
        return
    w = evalc.width_of(c)
    x = evalc.to_batch(ys, w)
    try:
        ctxr = evalc.make_ctx("sum-product", False, False)
        ccr = ctxr.compile(sp)
        st = ctxr._compiler.state
        p = rng.choice(leaves)
        idx = tuple(rng.randrange(d) for d in p.shape)
        t, k = st.retrieve_compiled_parameter(p)
        with torch.no_grad():
            t._ptensor[(k, *idx)] += H
            fp = evalc.evaluate(ccr, sp, ys, "sum-product", width=w)
            t._ptensor[(k, *idx)] -= 2 * H
            fm = evalc.evaluate(ccr, sp, ys, "sum-product", width=w)
            t._ptensor[(k, *idx)] += H
        fd = np.real(fp - fm) / (2 * H)
        for fold, opt in evalc.FLAGS:
            ctx = evalc.make_ctx(sem, fold, opt)
            ctx.compile(c)
            cc = ctx.compile(sp)
            gd, _gx, val = grads(cc, ctx._compiler.state, leaves, x, sem)
            if sem != "sum-product" and np.any(val == 0):
                continue
            ag = gd[id(p)][(slice(None), slice(None), slice(None), *idx)]
            if not np.all(np.isfinite(ag)):
                if np.all(np.abs(val) > 1e-300):
                    rep.violation("gradient-non-finite", "a gradient through a derived circuit is not finite although the function value is non-zero",
                                  {"case": desc, "flags": [fold, opt]})
                continue
            if not close(ag, fd, rtol=1e-4, atol=1e-6):
                rep.violation("derived-gradient-vs-finite-differences", "the gradient of multiply(c, c) w.r.t. a tensor of c differs from central finite differences",
                              {"case": desc, "flags": [fold, opt], "entry": list(idx), "observed": ag.tolist(), "expected": fd.tolist()})
                return
    except Exception as e:
        rep.violation("gradient-exception:" + type(e).__name__, "computing gradients through a derived circuit raised",
                      {"case": desc, "exception": repr(e)[:300], "traceback": traceback.format_exc()[-1500:]})


def run(rep, tier, seed, replay=None):
    n = 50 if tier == "quick" else 600
    cs = CaseSet(rep, PID)
    if replay is not None:
        c = replay["replay"].get("case", {})
        if c.get("family") == "derived":
            derived_case(rep, c.get("seed", seed), c.get("i", 0))
        else:
            one_case(rep, cs, c.get("seed", seed), c.get("i", 0))
        cs.run()
        return
    for i in range(n):
        one_case(rep, cs, seed, i)
    for i in range(max(12, n // 5)):
        derived_case(rep, seed, i)
    cs.run(shard=max(4, 50 // 14))  # shard size of the quick tier: thorough runs use more files, not longer ones
