(* C07 — conjugate computes the complex conjugate
   Property theorems only: each is closed by `exact <lemma>`; proofs live in the imported files. *)
From Coq Require Import List ZArith QArith Qcanon Ring_theory Field_theory Permutation Sorted.
Import ListNotations.
From CK Require Import Base.
From CK Require Import Circ.
From CK Require Import OpsSimple.
From CK Require Import Scalar.
From CK Require Import Tensor.
From CK Require Import Pexpr.
From CK Require Import Exec.
From CK Require Import Ops.
From CK Require Import Struct.
From CK Require Import Link.
From CK Require Import Link2.
Close Scope Qc_scope. Close Scope Q_scope. Close Scope Z_scope. Open Scope nat_scope.

(* for any map conj compatible with + and * (a semiring endomorphism), the conjugated circuit evaluates to conj applied entrywise to the original circuit's values *)
Theorem C07_conjugate :
  forall (R : Type) (rO : R) (radd rmul : R -> R -> R) (D : Type) (conj : R -> R),
         (forall a b : R, conj (radd a b) = radd (conj a) (conj b)) ->
         (forall a b : R, conj (rmul a b) = rmul (conj a) (conj b)) ->
         conj rO = rO ->
         forall (c : Circ.circuit R D) (y : Base.asg D),
         eval R rO radd rmul D (conjugate R D conj c) y = map (map conj) (eval R rO radd rmul D c y).
Proof. exact conjugate_correct. Qed.
Print Assumptions C07_conjugate.

(* if conj is an involution, conjugating twice gives back the function of c *)
Theorem C07_involutive :
  forall (R : Type) (rO : R) (radd rmul : R -> R -> R) (D : Type) (conj : R -> R),
         (forall a b : R, conj (radd a b) = radd (conj a) (conj b)) ->
         (forall a b : R, conj (rmul a b) = rmul (conj a) (conj b)) ->
         conj rO = rO ->
         (forall x : R, conj (conj x) = x) ->
         forall (c : Circ.circuit R D) (y : Base.asg D),
         eval R rO radd rmul D (conjugate R D conj (conjugate R D conj c)) y = eval R rO radd rmul D c y.
Proof. exact conjugate_involutive. Qed.
Print Assumptions C07_involutive.

(* if all weights and input functions are fixed by conj (real parameters), conjugate(c) computes the same function as c *)
Theorem C07_real_identity :
  forall (R : Type) (rO : R) (radd rmul : R -> R -> R) (D : Type) (conj : R -> R) (c : list (node R D)),
         (forall (W : list (Base.vec R)) (ins : list nat), In (NSum R D W ins) c -> map (map conj) W = W) ->
         (forall i : inp R D, In (NIn R D i) c -> forall y : Base.asg D, map conj (ifun R D i y) = ifun R D i y) ->
         forall y : Base.asg D, eval R rO radd rmul D (conjugate R D conj c) y = eval R rO radd rmul D c y.
Proof. exact conjugate_real. Qed.
Print Assumptions C07_real_identity.

(* the executable scalar structure (Gaussian rationals) satisfies the hypotheses: conj is an involution *)
Theorem C07_instance_invol :
  forall a : C, cconj (cconj a) = a.
Proof. exact cconj_invol. Qed.
Print Assumptions C07_instance_invol.

(* ... additive *)
Theorem C07_instance_add :
  forall a b : C, cconj (cadd a b) = cadd (cconj a) (cconj b).
Proof. exact cconj_add. Qed.
Print Assumptions C07_instance_add.

(* ... multiplicative *)
Theorem C07_instance_mul :
  forall a b : C, cconj (cmul a b) = cmul (cconj a) (cconj b).
Proof. exact cconj_mul. Qed.
Print Assumptions C07_instance_mul.

(* link: on the algebraic fragment the executable conjugate_m result denotes the entrywise conjugate of the executable denotation *)
Theorem C07_conjugate_executable :
  forall (c c' : circuit) (y : asg),
         frag c = true -> conjugate_m c = Ok c' -> den_all c' y = option_map (map (map cconj)) (den_all c y).
Proof. exact conjugate_link. Qed.
Print Assumptions C07_conjugate_executable.

(* EXECUTABLE level, every layer kind conjugate_m accepts: conjugating twice gives back a circuit with the original denotation at every node *)
Theorem C07_involutive_executable :
  forall (c c' c'' : circuit) (y : asg),
         conjugate_m c = Ok c' -> conjugate_m c' = Ok c'' -> den_all c'' y = den_all c y.
Proof. exact conjugate_conjugate_den. Qed.
Print Assumptions C07_involutive_executable.

(* the second conjugation never fails once the first succeeded *)
Theorem C07_second_conjugation_defined :
  forall c c' : circuit, conjugate_m c = Ok c' -> conjugate_m c' = Ok (cj2_exec c).
Proof. exact conjugate_m_twice. Qed.
Print Assumptions C07_second_conjugation_defined.
