(* OpsProps.v — properties of the operators of Ops.v:
   A. refusals (C09), B. no new learnable parameters (C10), C. result structure (C09). *)
From Coq Require Import ZArith QArith Qcanon List Bool Arith Lia Sorting.Sorted.
Import ListNotations.
From CK Require Import Base Scalar Tensor Pexpr Exec Ops Struct.
Close Scope Qc_scope. Close Scope Q_scope. Close Scope Z_scope.
Open Scope nat_scope.

(* ================================================================== *)
(* 0. Generic helpers                                                   *)
(* ================================================================== *)
Lemma sempty_false_iff (s : list nat) : sempty s = false <-> s <> [].
Proof. destruct s; simpl; split; intros H; try congruence; try discriminate. Qed.

Lemma rmap_list_Forall2 {X Y} (f : X -> res Y) (l : list X) :
  forall l', rmap_list f l = Ok l' -> Forall2 (fun x y => f x = Ok y) l l'.
Proof.
  induction l as [|x r IH]; intros l' H; simpl in H.
  - inversion H. constructor.
  - destruct (f x) as [y|e] eqn:Hf; [|discriminate H].
    destruct (rmap_list f r) as [ys|e] eqn:Hr; [|discriminate H].
    inversion H; subst. constructor; auto.
Qed.

Lemma Forall2_impl {A B} (R R' : A -> B -> Prop) l l' :
  (forall a b, R a b -> R' a b) -> Forall2 R l l' -> Forall2 R' l l'.
Proof. intros H. induction 1; constructor; auto. Qed.

Lemma Forall2_length {A B} (R : A -> B -> Prop) l l' : Forall2 R l l' -> length l = length l'.
Proof. induction 1; simpl; auto. Qed.

Lemma fold_left_inv {A B} (f : A -> B -> A) (P : A -> Prop) (l : list B) :
  (forall a b, In b l -> P a -> P (f a b)) -> forall a, P a -> P (fold_left f l a).
Proof.
  induction l as [|b l IH]; intros Hstep a Ha; simpl; auto.
  apply IH. intros a' b' Hb'. apply Hstep; simpl; auto. apply Hstep; simpl; auto.
Qed.

(* ================================================================== *)
(* A. Refusals                                                          *)
(* ================================================================== *)
Theorem integrate_refuses_struct Z c :
  is_smooth c && is_decomposable c = false -> integrate_m Z c = Err EStruct.
Proof. intros H. unfold integrate_m. rewrite H. reflexivity. Qed.

Theorem integrate_refuses_empty c :
  is_smooth c && is_decomposable c = true -> integrate_m [] c = Err EValue.
Proof. intros H. unfold integrate_m. rewrite H. reflexivity. Qed.

Theorem integrate_refuses_outside Z c :
  is_smooth c && is_decomposable c = true -> Z <> [] -> ssubset Z (cscope c) = false ->
  integrate_m Z c = Err EValue.
Proof.
  intros H HZ Hsub. unfold integrate_m. rewrite H, Hsub.
  destruct Z; [congruence | reflexivity].
Qed.

Theorem differentiate_refuses_struct k c :
  is_smooth c && is_decomposable c = false -> differentiate_m k c = Err EStruct.
Proof. intros H. unfold differentiate_m. rewrite H. reflexivity. Qed.

Theorem differentiate_refuses_order c :
  is_smooth c && is_decomposable c = true -> differentiate_m 0 c = Err EValue.
Proof. intros H. unfold differentiate_m. rewrite H. reflexivity. Qed.

Theorem multiply_refuses_scope a b :
  seqb (cscope a) (cscope b) = false -> multiply_m a b = Err ENotImpl.
Proof. intros H. unfold multiply_m. rewrite H. reflexivity. Qed.

Theorem multiply_refuses_incompatible a b :
  seqb (cscope a) (cscope b) = true -> compatible a b = false -> multiply_m a b = Err EStruct.
Proof. intros H1 H2. unfold multiply_m. rewrite H1, H2. reflexivity. Qed.

Theorem evidence_refuses_empty c : evidence_m [] c = Err EValue.
Proof. reflexivity. Qed.

Theorem evidence_refuses_outside obs c :
  canon (map fst obs) <> [] -> ssubset (canon (map fst obs)) (cscope c) = false ->
  evidence_m obs c = Err EValue.
Proof.
  intros Hne Hsub. unfold evidence_m. rewrite Hsub.
  destruct (sempty (canon (map fst obs))); reflexivity.
Qed.

(* a more general form of A5a: an observation with no variables at all *)
Theorem evidence_refuses_nodom obs c :
  canon (map fst obs) = [] -> evidence_m obs c = Err EValue.
Proof. intros H. unfold evidence_m. rewrite H. reflexivity. Qed.

Theorem integrate_ok Z c c' : integrate_m Z c = Ok c' ->
  is_smooth c = true /\ is_decomposable c = true /\ Z <> [] /\ ssubset Z (cscope c) = true.
Proof.
  intros H. unfold integrate_m in H.
  destruct (is_smooth c && is_decomposable c) eqn:Hsd; [|discriminate H].
  destruct (sempty Z) eqn:HZ; [discriminate H|].
  destruct (ssubset Z (cscope c)) eqn:Hsub; [|discriminate H].
  apply andb_true_iff in Hsd. destruct Hsd as [Hs Hd].
  apply sempty_false_iff in HZ. auto.
Qed.

Theorem evidence_ok obs c c' : evidence_m obs c = Ok c' ->
  canon (map fst obs) <> [] /\ ssubset (canon (map fst obs)) (cscope c) = true.
Proof.
  intros H. unfold evidence_m in H.
  destruct (sempty (canon (map fst obs))) eqn:HZ; [discriminate H|].
  destruct (ssubset (canon (map fst obs)) (cscope c)) eqn:Hsub; [|discriminate H].
  apply sempty_false_iff in HZ. auto.
Qed.

Theorem multiply_ok a b p : multiply_m a b = Ok p ->
  compatible a b = true /\ seqb (cscope a) (cscope b) = true.
Proof.
  intros H. unfold multiply_m in H.
  destruct (seqb (cscope a) (cscope b)) eqn:Hs; [|discriminate H].
  destruct (compatible a b) eqn:Hc; [|discriminate H]. auto.
Qed.

Theorem differentiate_ok k c c' : differentiate_m k c = Ok c' ->
  is_smooth c = true /\ is_decomposable c = true /\ k <> 0.
Proof.
  intros H. unfold differentiate_m in H.
  destruct (is_smooth c && is_decomposable c) eqn:Hsd; [|discriminate H].
  destruct (k =? 0) eqn:Hk; [discriminate H|].
  apply andb_true_iff in Hsd. destruct Hsd as [Hs Hd].
  apply Nat.eqb_neq in Hk. auto.
Qed.

(* ================================================================== *)
(* B. No new learnable parameters                                       *)
(* ================================================================== *)
Definition lay_learn (l : layer) : list nat := flat_map plearnable (layer_params l).

Lemma plearnable_un op e : plearnable (PUn op e) = plearnable e.
Proof. reflexivity. Qed.
Lemma plearnable_bin op a b : plearnable (PBin op a b) = plearnable a ++ plearnable b.
Proof. unfold plearnable; simpl. rewrite filter_app, map_app. reflexivity. Qed.
Lemma plearnable_gmean a b c d :
  plearnable (PGMean a b c d) = plearnable a ++ plearnable b ++ plearnable c ++ plearnable d.
Proof. unfold plearnable; simpl. rewrite !filter_app, !map_app. reflexivity. Qed.
Lemma plearnable_glogpart a b c d :
  plearnable (PGLogPart a b c d) = plearnable a ++ plearnable b ++ plearnable c ++ plearnable d.
Proof. unfold plearnable; simpl. rewrite !filter_app, !map_app. reflexivity. Qed.
Lemma plearnable_const i t : plearnable (PTen i false t) = [].
Proof. reflexivity. Qed.
Lemma plearnable_pconst0 K : plearnable (pconst0 K) = [].
Proof. reflexivity. Qed.
Lemma plearnable_log_of lg p : plearnable (log_of lg p) = plearnable p.
Proof. destruct lg; reflexivity. Qed.

Theorem learnable_ids_In x c :
  In x (learnable_ids c) <->
  exists n, In n (nodes c) /\ exists e, In e (layer_params (fst n)) /\ In x (plearnable e).
Proof.
  unfold learnable_ids. rewrite canon_In, in_flat_map. split.
  - intros [n [Hn Hx]]. exists n. split; auto. apply in_flat_map in Hx. exact Hx.
  - intros [n [Hn Hx]]. exists n. split; auto. apply in_flat_map. exact Hx.
Qed.

Lemma learnable_ids_In' x c :
  In x (learnable_ids c) <-> exists n, In n (nodes c) /\ In x (lay_learn (fst n)).
Proof. unfold learnable_ids, lay_learn. rewrite canon_In, in_flat_map. reflexivity. Qed.

Ltac learn_simpl :=
  unfold lay_learn; simpl;
  rewrite ?plearnable_un, ?plearnable_bin, ?plearnable_gmean, ?plearnable_glogpart,
          ?plearnable_const, ?plearnable_pconst0, ?plearnable_log_of, ?app_nil_r; simpl.

(* a node-wise operator whose new layers only carry ids of the old layer at the same place *)
Lemma nodewise_learnable (ns ns' : list (layer * list nat)) :
  Forall2 (fun n n' => forall x, In x (lay_learn (fst n')) -> In x (lay_learn (fst n))) ns ns' ->
  forall x, (exists n', In n' ns' /\ In x (lay_learn (fst n'))) ->
            exists n, In n ns /\ In x (lay_learn (fst n)).
Proof.
  induction 1 as [|n n' r r' Hn Hr IH]; intros x [m [Hm Hx]].
  - destruct Hm.
  - destruct Hm as [Hm|Hm].
    + subst m. exists n. split; [left; reflexivity | auto].
    + destruct (IH x) as [k [Hk Hxk]]; [exists m; auto|]. exists k. split; [right|]; auto.
Qed.

(* ---- B1 conjugate ---- *)
Lemma conjugate_layer_learn l l' : conjugate_layer l = Ok l' -> lay_learn l' = lay_learn l.
Proof.
  intros H. destruct l; simpl in H; try discriminate H; inversion H; subst; reflexivity.
Qed.

Lemma conjugate_nodes c c' : conjugate_m c = Ok c' ->
  Forall2 (fun n n' => conjugate_layer (fst n) = Ok (fst n') /\ snd n' = snd n) (nodes c) (nodes c')
  /\ outs c' = outs c.
Proof.
  intros H. unfold conjugate_m in H.
  destruct (rmap_list _ (nodes c)) as [ns|e] eqn:Hr; simpl in H; [|discriminate H].
  inversion H; subst; simpl. split; auto.
  apply rmap_list_Forall2 in Hr. eapply Forall2_impl; [|exact Hr].
  intros [l ins] [l' ins'] Hn. simpl in *.
  destruct (conjugate_layer l) as [l2|e]; simpl in Hn; [|discriminate Hn].
  inversion Hn; subst. auto.
Qed.

Theorem conjugate_no_new_learnable c c' : conjugate_m c = Ok c' ->
  forall x, In x (learnable_ids c') -> In x (learnable_ids c).
Proof.
  intros H x. rewrite !learnable_ids_In'. apply nodewise_learnable.
  destruct (conjugate_nodes c c' H) as [HF _]. eapply Forall2_impl; [|exact HF].
  intros n n' [Hl _] y Hy. rewrite (conjugate_layer_learn _ _ Hl) in Hy. exact Hy.
Qed.

(* ---- B2 evidence ---- *)
Definition evidence_node (obs : asg) (n : layer * list nat) : layer * list nat :=
  let '(l, ins) := n in
  match in_scope l with
  | [v] => if smem v (canon (map fst obs))
           then (LEvi l (PTen 0 false (of_vec [lookup v obs])), ins) else (l, ins)
  | _ => (l, ins)
  end.

Lemma evidence_nodes obs c c' : evidence_m obs c = Ok c' ->
  nodes c' = map (evidence_node obs) (nodes c) /\ outs c' = outs c.
Proof.
  intros H. unfold evidence_m in H.
  destruct (sempty (canon (map fst obs))); [discriminate H|].
  destruct (ssubset (canon (map fst obs)) (cscope c)); [|discriminate H].
  simpl in H. inversion H; subst; simpl. split; reflexivity.
Qed.

Lemma evidence_node_cases obs l ins :
  evidence_node obs (l, ins) = (l, ins) \/
  exists v, in_scope l = [v] /\ smem v (canon (map fst obs)) = true /\
            evidence_node obs (l, ins) = (LEvi l (PTen 0 false (of_vec [lookup v obs])), ins).
Proof.
  unfold evidence_node. destruct (in_scope l) as [|v [|w r]]; auto.
  destruct (smem v (canon (map fst obs))) eqn:Hm; auto. right. exists v. auto.
Qed.

Lemma Forall2_map_r {A B} (R : A -> B -> Prop) (f : A -> B) l :
  (forall x, In x l -> R x (f x)) -> Forall2 R l (map f l).
Proof.
  induction l as [|x l IH]; intros H; simpl; constructor.
  - apply H; simpl; auto.
  - apply IH. intros y Hy. apply H; simpl; auto.
Qed.

Theorem evidence_no_new_learnable obs c c' : evidence_m obs c = Ok c' ->
  forall x, In x (learnable_ids c') -> In x (learnable_ids c).
Proof.
  intros H x. rewrite !learnable_ids_In'. apply nodewise_learnable.
  destruct (evidence_nodes obs c c' H) as [HN _]. rewrite HN.
  apply Forall2_map_r. intros [l ins] _ y Hy.
  destruct (evidence_node_cases obs l ins) as [E|[v [_ [_ E]]]]; rewrite E in Hy; simpl in *; auto.
Qed.

(* ---- B3 integrate ---- *)
Definition integrate_node (Z : list nat) (n : layer * list nat) : res (layer * list nat) :=
  let '(l, ins) := n in
  if is_input l && negb (sdisjoint (in_scope l) Z)
  then dor l' <- integrate_layer l; Ok (l', ins)
  else Ok (l, ins).

Lemma integrate_nodes Z c c' : integrate_m Z c = Ok c' ->
  Forall2 (fun n n' => integrate_node Z n = Ok n') (nodes c) (nodes c') /\ outs c' = outs c.
Proof.
  intros H. unfold integrate_m in H.
  destruct (is_smooth c && is_decomposable c); [|discriminate H].
  destruct (sempty Z); [discriminate H|].
  destruct (ssubset Z (cscope c)); [|discriminate H].
  simpl in H.
  destruct (rmap_list _ (nodes c)) as [ns|e] eqn:Hr; simpl in H; [|discriminate H].
  inversion H; subst; simpl. split; auto.
  apply rmap_list_Forall2 in Hr. exact Hr.
Qed.

Lemma integrate_node_cases Z l ins n' : integrate_node Z (l, ins) = Ok n' ->
  (n' = (l, ins) /\ (is_input l = false \/ sdisjoint (in_scope l) Z = true)) \/
  (exists l', n' = (l', ins) /\ integrate_layer l = Ok l' /\ is_input l = true /\
              sdisjoint (in_scope l) Z = false).
Proof.
  unfold integrate_node. intros H.
  destruct (is_input l) eqn:Hi; simpl in H.
  - destruct (sdisjoint (in_scope l) Z) eqn:Hd; simpl in H.
    + inversion H; auto.
    + destruct (integrate_layer l) as [l'|e] eqn:Hl; simpl in H; [|discriminate H].
      inversion H; subst. right. exists l'. auto.
  - inversion H; auto.
Qed.

Lemma integrate_layer_learn l l' : integrate_layer l = Ok l' ->
  forall x, In x (lay_learn l') -> In x (lay_learn l).
Proof.
  intros H x. destruct l; simpl in H; try discriminate H.
  - inversion H; subst. learn_simpl. auto.
  - destruct logits; inversion H; subst; learn_simpl; auto. intros [].
  - destruct lp; inversion H; subst; learn_simpl; rewrite ?in_app_iff; simpl; tauto.
Qed.

Theorem integrate_no_new_learnable Z c c' : integrate_m Z c = Ok c' ->
  forall x, In x (learnable_ids c') -> In x (learnable_ids c).
Proof.
  intros H x. rewrite !learnable_ids_In'. apply nodewise_learnable.
  destruct (integrate_nodes Z c c' H) as [HF _]. eapply Forall2_impl; [|exact HF].
  intros [l ins] n' Hn y Hy.
  destruct (integrate_node_cases Z l ins n' Hn) as [[E _]|[l' [E [Hl _]]]]; subst n'; simpl in *; auto.
  eapply integrate_layer_learn; eauto.
Qed.

(* ---- B4 concatenate ---- *)
Lemma concatenate_from_layers cs : forall acc n,
  In n (nodes (concatenate_from cs acc)) ->
  (exists m, In m (nodes acc) /\ fst m = fst n) \/
  (exists c m, In c cs /\ In m (nodes c) /\ fst m = fst n).
Proof.
  induction cs as [|c r IH]; intros acc n Hn; simpl in Hn.
  - left. exists n. auto.
  - apply IH in Hn. simpl in Hn. destruct Hn as [[m [Hm E]]|[c0 [m [Hc [Hm E]]]]].
    + apply in_app_iff in Hm. destruct Hm as [Hm|Hm].
      * left. exists m. auto.
      * unfold shift_nodes in Hm. apply in_map_iff in Hm. destruct Hm as [k [Ek Hk]].
        right. exists c, k. subst m. simpl in E. simpl. auto.
    + right. exists c0, m. simpl. auto.
Qed.

Theorem concatenate_no_new_learnable cs c' : concatenate_m cs = Ok c' ->
  forall x, In x (learnable_ids c') -> exists c, In c cs /\ In x (learnable_ids c).
Proof.
  intros H x Hx. unfold concatenate_m in H. inversion H; subst c'. clear H.
  apply learnable_ids_In' in Hx. destruct Hx as [n [Hn Hx]].
  apply concatenate_from_layers in Hn. simpl in Hn.
  destruct Hn as [[m [[] _]]|[c [m [Hc [Hm E]]]]].
  exists c. split; auto. apply learnable_ids_In'. exists m. rewrite E. auto.
Qed.

(* ================================================================== *)
(* C. Result structure of the node-wise operators                       *)
(* ================================================================== *)
Lemma not_input_in_scope l : is_input l = false -> in_scope l = [].
Proof. destruct l; simpl; auto; discriminate. Qed.
Lemma input_not_sum l : is_input l = true -> is_sum l = false /\ is_prod l = false.
Proof. destruct l; simpl; auto; discriminate. Qed.

(* ---- C1: operators that keep the shape of every node ---- *)
Definition same_shape (n n' : layer * list nat) : Prop :=
  snd n' = snd n /\ is_input (fst n') = is_input (fst n) /\ is_sum (fst n') = is_sum (fst n) /\
  is_prod (fst n') = is_prod (fst n) /\ in_scope (fst n') = in_scope (fst n).

Lemma scopes_from_shape ns ns' : Forall2 same_shape ns ns' ->
  forall acc, scopes_from ns' acc = scopes_from ns acc.
Proof.
  induction 1 as [|[l ins] [l' ins'] r r' Hn Hr IH]; intros acc; auto.
  destruct Hn as (E1 & E2 & E3 & E4 & E5). simpl in *. subst ins'.
  rewrite E2, E5. apply IH.
Qed.

Lemma smooth_at_shape sc ns ns' : Forall2 same_shape ns ns' -> forall s,
  forallb (smooth_at sc) (combine (seq s (length ns')) ns') =
  forallb (smooth_at sc) (combine (seq s (length ns)) ns).
Proof.
  induction 1 as [|[l ins] [l' ins'] r r' Hn Hr IH]; intros s; auto.
  destruct Hn as (E1 & E2 & E3 & E4 & E5). simpl in *. subst ins'.
  rewrite E3, (IH (SS s)). reflexivity.
Qed.

Lemma dec_at_shape sc ns ns' : Forall2 same_shape ns ns' ->
  forallb (dec_at sc) ns' = forallb (dec_at sc) ns.
Proof.
  induction 1 as [|[l ins] [l' ins'] r r' Hn Hr IH]; auto.
  destruct Hn as (E1 & E2 & E3 & E4 & E5). simpl in *. subst ins'.
  rewrite E4, IH. reflexivity.
Qed.

Lemma fact_at_shape sc ns ns' : Forall2 same_shape ns ns' -> forall s,
  flat_map (fact_at sc) (combine (seq s (length ns')) ns') =
  flat_map (fact_at sc) (combine (seq s (length ns)) ns).
Proof.
  induction 1 as [|[l ins] [l' ins'] r r' Hn Hr IH]; intros s; auto.
  destruct Hn as (E1 & E2 & E3 & E4 & E5). simpl in *. subst ins'.
  rewrite E4, (IH (SS s)). reflexivity.
Qed.

Theorem same_shape_structure c c' :
  Forall2 same_shape (nodes c) (nodes c') -> outs c' = outs c ->
  scopes c' = scopes c /\ is_smooth c' = is_smooth c /\ is_decomposable c' = is_decomposable c /\
  factorizations c' = factorizations c /\ is_sd c' = is_sd c /\ cscope c' = cscope c.
Proof.
  intros HF Ho.
  assert (Hsc : scopes c' = scopes c) by (unfold scopes; apply scopes_from_shape; exact HF).
  assert (Hsm : is_smooth c' = is_smooth c).
  { rewrite !is_smooth_unfold, Hsc. apply smooth_at_shape. exact HF. }
  assert (Hde : is_decomposable c' = is_decomposable c).
  { rewrite !is_decomposable_unfold, Hsc. apply dec_at_shape. exact HF. }
  assert (Hfa : factorizations c' = factorizations c).
  { rewrite !factorizations_unfold, Hsc. apply fact_at_shape. exact HF. }
  repeat split; auto.
  - rewrite !is_sd_unfold, Hsm, Hde, Hfa. reflexivity.
  - unfold cscope. rewrite Hsc, Ho. reflexivity.
Qed.

Lemma conjugate_layer_shape l l' ins : conjugate_layer l = Ok l' -> same_shape (l, ins) (l', ins).
Proof.
  intros H. destruct l; simpl in H; try discriminate H; inversion H; subst;
    unfold same_shape; simpl; auto.
Qed.

Lemma conjugate_same_shape c c' : conjugate_m c = Ok c' -> Forall2 same_shape (nodes c) (nodes c').
Proof.
  intros H. destruct (conjugate_nodes c c' H) as [HF _]. eapply Forall2_impl; [|exact HF].
  intros [l ins] [l' ins'] [Hl E]. simpl in *. subst ins'. apply conjugate_layer_shape. exact Hl.
Qed.

Theorem conjugate_structure c c' : conjugate_m c = Ok c' ->
  scopes c' = scopes c /\ is_smooth c' = is_smooth c /\ is_decomposable c' = is_decomposable c /\
  is_sd c' = is_sd c /\ outs c' = outs c.
Proof.
  intros H. destruct (conjugate_nodes c c' H) as [_ Ho].
  destruct (same_shape_structure c c' (conjugate_same_shape c c' H) Ho)
    as (H1 & H2 & H3 & H4 & H5 & H6). auto.
Qed.

Theorem conjugate_structure_more c c' : conjugate_m c = Ok c' ->
  cscope c' = cscope c /\ factorizations c' = factorizations c /\
  length (nodes c') = length (nodes c) /\
  (forall b, compatible c' b = compatible c b) /\ (forall b, compatible b c' = compatible b c).
Proof.
  intros H. destruct (conjugate_nodes c c' H) as [HF Ho].
  destruct (same_shape_structure c c' (conjugate_same_shape c c' H) Ho)
    as (H1 & H2 & H3 & H4 & H5 & H6).
  assert (Hc : forall b, compatible c' b = compatible c b).
  { intros b. rewrite !compatible_unfold, H2, H3, H4. reflexivity. }
  repeat split; auto.
  - symmetry. eapply Forall2_length. exact HF.
  - intros b. rewrite (compatible_sym b c'), (compatible_sym b c). apply Hc.
Qed.

(* ---- C2/C3: operators that remove the variables Z from every scope ---- *)
Section Restrict.
Variable Z : list nat.
Definition D (s : list nat) : list nat := sdiff s Z.

Definition restr_node (n n' : layer * list nat) : Prop :=
  snd n' = snd n /\ is_input (fst n') = is_input (fst n) /\ is_sum (fst n') = is_sum (fst n) /\
  is_prod (fst n') = is_prod (fst n) /\ in_scope (fst n') = D (in_scope (fst n)).

Lemma D_nil : D [] = [].
Proof. reflexivity. Qed.
Lemma D_In v s : In v (D s) <-> In v s /\ ~ In v Z.
Proof. apply sdiff_In. Qed.
Lemma D_sorted s : sorted s -> sorted (D s).
Proof. apply sdiff_sorted. Qed.
Lemma nth_map_D sc j : nth j (map D sc) [] = D (nth j sc []).
Proof. rewrite <- D_nil at 1. apply map_nth. Qed.
Lemma map_nth_map_D sc ins :
  map (fun j => nth j (map D sc) []) ins = map D (map (fun j => nth j sc []) ins).
Proof. rewrite map_map. apply map_ext. intros j. apply nth_map_D. Qed.

Lemma D_sunions ss : sunions (map D ss) = D (sunions ss).
Proof.
  apply sorted_ext; [apply sunions_sorted | apply D_sorted, sunions_sorted |].
  intros v. rewrite D_In, !sunions_In. split.
  - intros [s [Hs Hv]]. apply in_map_iff in Hs. destruct Hs as [t [Et Ht]]. subst s.
    apply D_In in Hv. destruct Hv as [Hv HZ]. split; auto. exists t; auto.
  - intros [[t [Ht Hv]] HZ]. exists (D t). split. apply in_map; auto. apply D_In; auto.
Qed.

Lemma D_disjoint_id s : sdisjoint s Z = true -> D s = s.
Proof.
  unfold D, sdiff, sdisjoint. induction s as [|x s IH]; simpl; auto.
  intros H. apply andb_true_iff in H. destruct H as [H1 H2]. rewrite H1, IH; auto.
Qed.

Lemma sdisjoint_D a b : sdisjoint a b = true -> sdisjoint (D a) (D b) = true.
Proof.
  rewrite !sdisjoint_iff. intros H v Ha Hb. apply D_In in Ha, Hb. apply (H v); tauto.
Qed.

Lemma all_pairs_map_D l : all_pairs sdisjoint l = true -> all_pairs sdisjoint (map D l) = true.
Proof.
  induction l as [|x l IH]; simpl; auto. intros H. apply andb_true_iff in H. destruct H as [H1 H2].
  apply andb_true_iff. split; auto. rewrite forallb_forall in *. intros y Hy.
  apply in_map_iff in Hy. destruct Hy as [t [Et Ht]]. subst y. apply sdisjoint_D. auto.
Qed.

Lemma node_scope_restr l ins l' acc : restr_node (l, ins) (l', ins) ->
  node_scope l' ins (map D acc) = D (node_scope l ins acc).
Proof.
  intros (E1 & E2 & E3 & E4 & E5). simpl in *. unfold node_scope. rewrite E2.
  destruct (is_input l); auto. rewrite map_nth_map_D. apply D_sunions.
Qed.

Lemma scopes_from_restr ns ns' : Forall2 restr_node ns ns' ->
  forall acc, scopes_from ns' (map D acc) = map D (scopes_from ns acc).
Proof.
  induction 1 as [|[l ins] [l' ins'] r r' Hn Hr IH]; intros acc; auto.
  assert (E : ins' = ins) by (destruct Hn as [E _]; exact E). subst ins'.
  rewrite !scopes_from_cons, (node_scope_restr l ins l' acc Hn), <- IH. f_equal.
  rewrite map_app. reflexivity.
Qed.

Lemma smooth_at_restr sc ns ns' : Forall2 restr_node ns ns' -> forall s,
  forallb (smooth_at sc) (combine (seq s (length ns)) ns) = true ->
  forallb (smooth_at (map D sc)) (combine (seq s (length ns')) ns') = true.
Proof.
  induction 1 as [|[l ins] [l' ins'] r r' Hn Hr IH]; intros s Hs; auto.
  destruct Hn as (E1 & E2 & E3 & E4 & E5). simpl in *. subst ins'.
  apply andb_true_iff in Hs. destruct Hs as [Hs1 Hs2].
  apply andb_true_iff. split; [|apply IH; exact Hs2].
  rewrite E3. destruct (is_sum l); auto.
  rewrite forallb_forall in *. intros j Hj. rewrite !nth_map_D.
  apply seqb_eq. f_equal. apply seqb_eq. auto.
Qed.

Lemma dec_at_restr sc ns ns' : Forall2 restr_node ns ns' ->
  forallb (dec_at sc) ns = true -> forallb (dec_at (map D sc)) ns' = true.
Proof.
  induction 1 as [|[l ins] [l' ins'] r r' Hn Hr IH]; intros Hs; auto.
  destruct Hn as (E1 & E2 & E3 & E4 & E5). simpl in *. subst ins'.
  apply andb_true_iff in Hs. destruct Hs as [Hs1 Hs2].
  apply andb_true_iff. split; [|apply IH; exact Hs2].
  rewrite E4. destruct (is_prod l); auto.
  rewrite map_nth_map_D. apply all_pairs_map_D. exact Hs1.
Qed.

Theorem restr_structure c c' :
  Forall2 restr_node (nodes c) (nodes c') -> outs c' = outs c ->
  scopes c' = map D (scopes c) /\
  (is_smooth c = true -> is_smooth c' = true) /\
  (is_decomposable c = true -> is_decomposable c' = true) /\
  cscope c' = D (cscope c).
Proof.
  intros HF Ho.
  assert (Hsc : scopes c' = map D (scopes c)).
  { unfold scopes. apply (scopes_from_restr _ _ HF []). }
  repeat split.
  - exact Hsc.
  - rewrite !is_smooth_unfold, Hsc. apply smooth_at_restr. exact HF.
  - rewrite !is_decomposable_unfold, Hsc. apply dec_at_restr. exact HF.
  - unfold cscope. rewrite Hsc, Ho, map_nth_map_D. apply D_sunions.
Qed.
End Restrict.

(* ---- C2 evidence ---- *)
Lemma evidence_node_restr obs l ins :
  restr_node (canon (map fst obs)) (l, ins) (evidence_node obs (l, ins)).
Proof.
  unfold restr_node, D, sdiff.
  destruct l; simpl; try (repeat split; reflexivity);
    destruct (smem v (canon (map fst obs))) eqn:Hm; simpl; rewrite ?Hm; simpl;
    repeat split; reflexivity.
Qed.

Lemma evidence_restr obs c c' : evidence_m obs c = Ok c' ->
  Forall2 (restr_node (canon (map fst obs))) (nodes c) (nodes c').
Proof.
  intros H. destruct (evidence_nodes obs c c' H) as [HN _]. rewrite HN.
  apply Forall2_map_r. intros [l ins] _. apply evidence_node_restr.
Qed.

Theorem evidence_structure obs c c' : evidence_m obs c = Ok c' ->
  scopes c' = map (fun s => sdiff s (canon (map fst obs))) (scopes c) /\
  (is_smooth c = true -> is_smooth c' = true) /\
  (is_decomposable c = true -> is_decomposable c' = true) /\
  cscope c' = sdiff (cscope c) (canon (map fst obs)) /\
  outs c' = outs c /\ length (nodes c') = length (nodes c).
Proof.
  intros H. destruct (evidence_nodes obs c c' H) as [HN Ho].
  destruct (restr_structure _ c c' (evidence_restr obs c c' H) Ho) as (H1 & H2 & H3 & H4).
  repeat split; auto. rewrite HN, map_length. reflexivity.
Qed.

(* ---- C3 integrate ---- *)
Lemma integrate_node_restr Z l ins n' : integrate_node Z (l, ins) = Ok n' ->
  restr_node Z (l, ins) n'.
Proof.
  intros H.
  destruct (integrate_node_cases Z l ins n' H) as [[E Hc]|[l' [E [Hl [Hi Hd]]]]]; subst n'.
  - unfold restr_node; simpl. repeat split; auto. destruct Hc as [Hc|Hc].
    + rewrite (not_input_in_scope l Hc). reflexivity.
    + symmetry. apply D_disjoint_id. exact Hc.
  - unfold restr_node, D, sdiff, sdisjoint in *.
    destruct l; simpl in *; try discriminate Hl.
    + inversion Hl; subst; simpl. destruct (smem v Z); simpl in *; try discriminate Hd; auto.
    + destruct logits; inversion Hl; subst; simpl;
        destruct (smem v Z); simpl in *; try discriminate Hd; auto.
    + destruct lp; inversion Hl; subst; simpl;
        destruct (smem v Z); simpl in *; try discriminate Hd; auto.
Qed.

Lemma integrate_restr Z c c' : integrate_m Z c = Ok c' ->
  Forall2 (restr_node Z) (nodes c) (nodes c').
Proof.
  intros H. destruct (integrate_nodes Z c c' H) as [HF _]. eapply Forall2_impl; [|exact HF].
  intros [l ins] n' Hn. apply integrate_node_restr. exact Hn.
Qed.

Theorem integrate_structure Z c c' : integrate_m Z c = Ok c' ->
  scopes c' = map (fun s => sdiff s Z) (scopes c) /\
  is_smooth c' = true /\ is_decomposable c' = true /\
  cscope c' = sdiff (cscope c) Z /\
  outs c' = outs c /\ length (nodes c') = length (nodes c).
Proof.
  intros H. destruct (integrate_nodes Z c c' H) as [HF Ho].
  destruct (integrate_ok Z c c' H) as (Hs & Hd & _ & _).
  destruct (restr_structure _ c c' (integrate_restr Z c c' H) Ho) as (H1 & H2 & H3 & H4).
  repeat split; auto. symmetry. eapply Forall2_length. exact HF.
Qed.

(* ================================================================== *)
(* B5. differentiate: no new learnable parameters                       *)
(* ================================================================== *)
Lemma diff_layer_learn k l dl : diff_layer k l = Ok dl -> lay_learn dl = lay_learn l.
Proof. intros H. destruct l; simpl in H; try discriminate H. inversion H; subst. reflexivity. Qed.

(* the step function of [differentiate_m], as a top-level definition *)
Definition diff_step (order : nat) (sc : list (list nat))
    (acc : res dstate) (p : nat * (layer * list nat)) : res dstate :=
  dor st <- acc;
  let '(i, (l, ins)) := p in
  let k := length (dnodes st) in
  let self_of (j : nat) := snd (nth j (dtbl st) ([], 0)) in
  let diffs_of (j : nat) := fst (nth j (dtbl st) ([], 0)) in
  if is_input l then
    dor dl <- diff_layer order l;
    match in_scope l with
    | [v] => Ok {| dnodes := dnodes st ++ [(dl, []); (l, [])]; dtbl := dtbl st ++ [([(v, k)], k + 1)] |}
    | _ => Ok {| dnodes := dnodes st ++ [(l, [])]; dtbl := dtbl st ++ [([], k)] |}
    end
  else
    let vars := nth i sc [] in
    let blocks :=
      if is_sum l then
        map (fun v => omap (fun j => alookup v (diffs_of j)) ins) vars
      else
        map (fun v => omap (fun j => match alookup v (diffs_of j) with
                                     | Some d => Some d
                                     | None => if smem v (nth j sc []) then None else Some (self_of j)
                                     end) ins) vars in
    match omap (fun x => x) blocks with
    | Some bl =>
        let n := length vars in
        Ok {| dnodes := dnodes st ++ map (fun b => (l, b)) bl ++ [(l, map self_of ins)];
              dtbl := dtbl st ++ [(combine vars (seq k n), k + n)] |}
    | None => Err EAssert
    end.

Lemma differentiate_unfold order c :
  differentiate_m order c =
  if negb (is_smooth c && is_decomposable c) then Err EStruct
  else if order =? 0 then Err EValue
  else
    dor st <- fold_left (diff_step order (scopes c))
                (combine (seq 0 (length (nodes c))) (nodes c)) (Ok {| dnodes := []; dtbl := [] |});
    Ok (mkC (dnodes st)
            (flat_map (fun o => let '(ds, s) := nth o (dtbl st) ([], 0) in map snd ds ++ [s]) (outs c))).
Proof. reflexivity. Qed.

(* every layer of the result is a layer of the operand or its [diff_layer] *)
Definition dgood (k : nat) (ns : list (layer * list nat)) (acc : res dstate) : Prop :=
  forall st, acc = Ok st -> forall n, In n (dnodes st) ->
  exists m, In m ns /\ (fst n = fst m \/ diff_layer k (fst m) = Ok (fst n)).

Lemma diff_step_good k sc ns acc p :
  In (snd p) ns -> dgood k ns acc -> dgood k ns (diff_step k sc acc p).
Proof.
  destruct p as [i [l ins]]. simpl. intros Hin Hinv st Hst n Hn.
  destruct acc as [st0|e]; [|discriminate Hst]. unfold diff_step, rbind in Hst.
  specialize (Hinv st0 eq_refl).
  destruct (is_input l).
  - destruct (diff_layer k l) as [dl|e] eqn:Hd; [|discriminate Hst].
    assert (Hboth : forall n, In n (dnodes st0 ++ [(dl, []); (l, [])]) ->
              exists m, In m ns /\ (fst n = fst m \/ diff_layer k (fst m) = Ok (fst n))).
    { intros n0 Hn0. apply in_app_iff in Hn0. destruct Hn0 as [Hn0|[Hn0|[Hn0|[]]]]; auto.
      - subst n0. exists (l, ins). simpl. auto.
      - subst n0. exists (l, ins). simpl. auto. }
    destruct (in_scope l) as [|v [|w r]]; inversion Hst; subst st; simpl in Hn.
    + apply in_app_iff in Hn. destruct Hn as [Hn|[Hn|[]]]; auto.
      subst n. exists (l, ins). simpl. auto.
    + apply Hboth. exact Hn.
    + apply in_app_iff in Hn. destruct Hn as [Hn|[Hn|[]]]; auto.
      subst n. exists (l, ins). simpl. auto.
  - match type of Hst with match ?o with _ => _ end = _ => destruct o as [bl|] end;
      [|discriminate Hst].
    inversion Hst; subst st; simpl in Hn.
    apply in_app_iff in Hn. destruct Hn as [Hn|Hn]; auto.
    apply in_app_iff in Hn. destruct Hn as [Hn|[Hn|[]]].
    + apply in_map_iff in Hn. destruct Hn as [b [Eb _]]. subst n. exists (l, ins). simpl. auto.
    + subst n. exists (l, ins). simpl. auto.
Qed.

Theorem differentiate_layers k c c' : differentiate_m k c = Ok c' ->
  forall n, In n (nodes c') ->
  exists m, In m (nodes c) /\ (fst n = fst m \/ diff_layer k (fst m) = Ok (fst n)).
Proof.
  intros H. rewrite differentiate_unfold in H.
  destruct (negb (is_smooth c && is_decomposable c)); [discriminate H|].
  destruct (k =? 0); [discriminate H|].
  assert (Hg : dgood k (nodes c)
            (fold_left (diff_step k (scopes c)) (combine (seq 0 (length (nodes c))) (nodes c))
               (Ok {| dnodes := []; dtbl := [] |}))).
  { apply fold_left_inv.
    - intros acc p Hp. apply diff_step_good. destruct p as [i n]. simpl.
      eapply in_combine_r. exact Hp.
    - intros st Hst n Hn. inversion Hst; subst st. destruct Hn. }
  destruct (fold_left _ _ _) as [st|e]; [|discriminate H].
  unfold rbind in H. inversion H; subst c'. simpl. apply (Hg st eq_refl).
Qed.

Theorem differentiate_no_new_learnable k c c' : differentiate_m k c = Ok c' ->
  forall x, In x (learnable_ids c') -> In x (learnable_ids c).
Proof.
  intros H x. rewrite !learnable_ids_In'. intros [n [Hn Hx]].
  destruct (differentiate_layers k c c' H n Hn) as [m [Hm [E|E]]]; exists m; split; auto.
  - rewrite <- E. exact Hx.
  - rewrite <- (diff_layer_learn _ _ _ E). exact Hx.
Qed.

(* ================================================================== *)
(* B6. multiply: no new learnable parameters                            *)
(* ================================================================== *)
Lemma multiply_inputs_learn l1 l2 l : multiply_inputs l1 l2 = Ok l ->
  forall x, In x (lay_learn l) -> In x (lay_learn l1) \/ In x (lay_learn l2).
Proof.
  intros H x.
  destruct l1, l2; simpl in H; try discriminate H.
  - destruct (negb (v =? v0)); [discriminate H|]. destruct (negb (N =? N0)); [discriminate H|].
    inversion H; subst. learn_simpl. rewrite !in_app_iff. simpl. tauto.
  - destruct (negb (v =? v0)); [discriminate H|]. destruct (negb (N =? N0)); [discriminate H|].
    inversion H; subst. learn_simpl. rewrite !in_app_iff. simpl. tauto.
  - destruct (negb (v =? v0)); [discriminate H|].
    inversion H; subst. destruct lp, lp0; learn_simpl; rewrite ?in_app_iff; simpl;
      rewrite ?in_app_iff; tauto.
  - destruct (negb (v =? v0)); [discriminate H|].
    inversion H; subst. learn_simpl. rewrite !in_app_iff. simpl. tauto.
Qed.

(* the step function of [multiply_m], as a top-level definition *)
Definition mul_step (a b : circuit) (st : mstate) (ij : nat * nat) : mstate :=
  let na := length (nodes a) in let nb := length (nodes b) in
  let sa := scopes a in let sb := scopes b in
  let '(i, j) := ij in
  let '(l1, ins1) := nth i (nodes a) (LHad 0 0, []) in
  let '(l2, ins2) := nth j (nodes b) (LHad 0 0, []) in
  let get (p q : nat) := nth (p * nb + q) (mtbl st) None in
  let add (ls : list (layer * list nat)) :=
    {| mnodes := mnodes st ++ ls; mtbl := mtbl st ++ [Some (length (mnodes st) + length ls - 1)] |} in
  let none := {| mnodes := mnodes st; mtbl := mtbl st ++ [None] |} in
  if sdisjoint (nth i sa []) (nth j sb []) then
    if out_units l1 =? out_units l2 then add [(LKron (out_units l1) 2, [i; na + j])] else none
  else if negb (seqb (nth i sa []) (nth j sb [])) then none
  else if is_input l1 then
    match multiply_inputs l1 l2 with Ok l => add [(l, [])] | Err _ => none end
  else
    match l1, l2 with
    | LSum Ki1 Ko1 ar1 w1, LSum Ki2 Ko2 ar2 w2 =>
        match omap (fun pq => get (fst pq) (snd pq)) (pairs pair ins1 ins2) with
        | Some cs => add [(LSum (Ki1 * Ki2) (Ko1 * Ko2) (ar1 * ar2)
                     (PUn (UIndex 1 (sumsum_perm ar1 Ki1 ar2 Ki2)) (PBin BKron w1 w2)), cs)]
        | None => none
        end
    | LHad Ki1 ar1, LHad Ki2 ar2 =>
        if length ins1 =? length ins2 then
          let s1 := sort_by (fun p => min_of (nth p sa [])) ins1 in
          let s2 := sort_by (fun q => min_of (nth q sb [])) ins2 in
          match omap (fun pq => get (fst pq) (snd pq)) (combine s1 s2) with
          | Some cs => add [(LHad (Ki1 * Ki2) (Nat.max ar1 ar2), cs)]
          | None => none
          end
        else none
    | LKron Ki1 ar1, LKron Ki2 ar2 =>
        if (length ins1 =? length ins2)
           && forallb (fun pq => seqb (nth (fst pq) sa []) (nth (snd pq) sb [])) (combine ins1 ins2) then
          match omap (fun pq => get (fst pq) (snd pq)) (combine ins1 ins2) with
          | Some cs =>
              let ar := Nat.max ar1 ar2 in
              let n := Nat.pow (Ki1 * Ki2) ar in
              let k := length (mnodes st) in
              add [(LKron (Ki1 * Ki2) ar, cs);
                   (LSum n n 1 (PTen 0 false (of_mat (kron_perm Ki1 Ki2 ar))), [k])]
          | None => none
          end
        else none
    | _, _ => none
    end.

Lemma multiply_unfold a b :
  multiply_m a b =
  if negb (seqb (cscope a) (cscope b)) then Err ENotImpl
  else if negb (compatible a b) then Err EStruct
  else
    let na := length (nodes a) in let nb := length (nodes b) in
    let st := fold_left (mul_step a b) (pairs pair (seq 0 na) (seq 0 nb))
                {| mnodes := nodes a ++ shift_nodes na (nodes b); mtbl := [] |} in
    match omap (fun pq => nth (fst pq * nb + snd pq) (mtbl st) None) (pairs pair (outs a) (outs b)) with
    | Some os => Ok (mkC (mnodes st) os)
    | None => Err ERule
    end.
Proof. reflexivity. Qed.

Definition from_ab (a b : circuit) (x : nat) : Prop :=
  (exists m, In m (nodes a) /\ In x (lay_learn (fst m))) \/
  (exists m, In m (nodes b) /\ In x (lay_learn (fst m))).
Definition mgood (a b : circuit) (ns : list (layer * list nat)) : Prop :=
  forall n, In n ns -> forall x, In x (lay_learn (fst n)) -> from_ab a b x.

Lemma mgood_app a b ns ls : mgood a b ns -> mgood a b ls -> mgood a b (ns ++ ls).
Proof. intros H1 H2 n Hn. apply in_app_iff in Hn. destruct Hn as [Hn|Hn]; [apply H1|apply H2]; exact Hn. Qed.

Lemma mgood_base a b : mgood a b (nodes a ++ shift_nodes (length (nodes a)) (nodes b)).
Proof.
  apply mgood_app.
  - intros n Hn x Hx. left. exists n. auto.
  - intros n Hn x Hx. unfold shift_nodes in Hn. apply in_map_iff in Hn.
    destruct Hn as [m [E Hm]]. subst n. simpl in Hx. right. exists m. auto.
Qed.

Lemma nth_learn (ns : list (layer * list nat)) i l ins :
  nth i ns (LHad 0 0, []) = (l, ins) ->
  forall x, In x (lay_learn l) -> exists m, In m ns /\ In x (lay_learn (fst m)).
Proof.
  intros E x Hx. destruct (nth_in_or_default i ns (LHad 0 0, [])) as [Hin|Hd].
  - exists (l, ins). split; [rewrite <- E; exact Hin | exact Hx].
  - rewrite Hd in E. inversion E; subst. destruct Hx.
Qed.

Lemma mgood_one a b l ins : (forall x, In x (lay_learn l) -> from_ab a b x) -> mgood a b [(l, ins)].
Proof. intros H n [Hn|[]] x Hx. subst n. auto. Qed.

Lemma mul_step_good a b st ij : mgood a b (mnodes st) -> mgood a b (mnodes (mul_step a b st ij)).
Proof.
  intros Hst. destruct ij as [i j]. unfold mul_step.
  destruct (nth i (nodes a) (LHad 0 0, [])) as [l1 ins1] eqn:E1.
  destruct (nth j (nodes b) (LHad 0 0, [])) as [l2 ins2] eqn:E2.
  pose proof (nth_learn _ _ _ _ E1) as H1. pose proof (nth_learn _ _ _ _ E2) as H2.
  destruct (sdisjoint _ _).
  { destruct (out_units l1 =? out_units l2); simpl; auto.
    apply mgood_app; auto. apply mgood_one. intros x []. }
  destruct (negb (seqb _ _)); [simpl; auto|].
  destruct (is_input l1).
  { destruct (multiply_inputs l1 l2) as [l|e] eqn:Hm; simpl; auto.
    apply mgood_app; auto. apply mgood_one. intros x Hx.
    destruct (multiply_inputs_learn _ _ _ Hm x Hx) as [Hx1|Hx2]; [left|right]; auto. }
  destruct l1, l2; simpl; auto.
  - (* sum x sum *)
    match goal with |- context [omap ?f ?l] => destruct (omap f l) as [cs|] end; simpl; auto.
    apply mgood_app; auto. apply mgood_one. intros x Hx.
    unfold lay_learn in Hx. simpl in Hx.
    rewrite plearnable_un, plearnable_bin, app_nil_r in Hx. apply in_app_iff in Hx.
    destruct Hx as [Hx|Hx]; [left; apply H1 | right; apply H2]; learn_simpl; exact Hx.
  - (* had x had *)
    destruct (length ins1 =? length ins2); simpl; auto.
    match goal with |- context [omap ?f ?l] => destruct (omap f l) as [cs|] end; simpl; auto.
    apply mgood_app; auto. apply mgood_one. intros x [].
  - (* kron x kron *)
    match goal with |- context [if ?c then _ else _] => destruct c end; simpl; auto.
    match goal with |- context [omap ?f ?l] => destruct (omap f l) as [cs|] end; simpl; auto.
    apply mgood_app; auto. intros n [Hn|[Hn|[]]] x Hx; subst n; destruct Hx.
Qed.

Theorem multiply_no_new_learnable a b p : multiply_m a b = Ok p ->
  forall x, In x (learnable_ids p) -> In x (learnable_ids a) \/ In x (learnable_ids b).
Proof.
  intros H x. rewrite !learnable_ids_In'. intros [n [Hn Hx]].
  rewrite multiply_unfold in H.
  destruct (negb (seqb (cscope a) (cscope b))); [discriminate H|].
  destruct (negb (compatible a b)); [discriminate H|].
  cbv zeta in H.
  assert (Hg : mgood a b (mnodes
            (fold_left (mul_step a b) (pairs pair (seq 0 (length (nodes a))) (seq 0 (length (nodes b))))
               {| mnodes := nodes a ++ shift_nodes (length (nodes a)) (nodes b); mtbl := [] |}))).
  { apply (fold_left_inv (mul_step a b) (fun st => mgood a b (mnodes st))).
    - intros st ij _. apply mul_step_good.
    - simpl. apply mgood_base. }
  destruct (omap _ _) as [os|]; [|discriminate H].
  inversion H; subst p. simpl in Hn. exact (Hg n Hn x Hx).
Qed.

(* ---- the [ssubset] forms of B ---- *)
Corollary conjugate_learnable_subset c c' : conjugate_m c = Ok c' ->
  ssubset (learnable_ids c') (learnable_ids c) = true.
Proof. intros H. apply ssubset_iff. apply (conjugate_no_new_learnable c c' H). Qed.
Corollary evidence_learnable_subset obs c c' : evidence_m obs c = Ok c' ->
  ssubset (learnable_ids c') (learnable_ids c) = true.
Proof. intros H. apply ssubset_iff. apply (evidence_no_new_learnable obs c c' H). Qed.
Corollary integrate_learnable_subset Z c c' : integrate_m Z c = Ok c' ->
  ssubset (learnable_ids c') (learnable_ids c) = true.
Proof. intros H. apply ssubset_iff. apply (integrate_no_new_learnable Z c c' H). Qed.
Corollary differentiate_learnable_subset k c c' : differentiate_m k c = Ok c' ->
  ssubset (learnable_ids c') (learnable_ids c) = true.
Proof. intros H. apply ssubset_iff. apply (differentiate_no_new_learnable k c c' H). Qed.
Corollary multiply_learnable_subset a b p : multiply_m a b = Ok p ->
  ssubset (learnable_ids p) (sunion (learnable_ids a) (learnable_ids b)) = true.
Proof.
  intros H. apply ssubset_iff. intros x Hx. apply sunion_In.
  apply (multiply_no_new_learnable a b p H x Hx).
Qed.
Corollary concatenate_learnable_subset cs c' : concatenate_m cs = Ok c' ->
  ssubset (learnable_ids c') (sunions (map learnable_ids cs)) = true.
Proof.
  intros H. apply ssubset_iff. intros x Hx. apply sunions_In.
  destruct (concatenate_no_new_learnable cs c' H x Hx) as [c [Hc Hxc]].
  exists (learnable_ids c). split; auto. apply in_map. exact Hc.
Qed.

(* ================================================================== *)
(* Deliverables                                                         *)
(* ================================================================== *)
Check integrate_refuses_struct. Print Assumptions integrate_refuses_struct.
Check integrate_refuses_empty. Print Assumptions integrate_refuses_empty.
Check integrate_refuses_outside. Print Assumptions integrate_refuses_outside.
Check differentiate_refuses_struct. Print Assumptions differentiate_refuses_struct.
Check differentiate_refuses_order. Print Assumptions differentiate_refuses_order.
Check multiply_refuses_scope. Print Assumptions multiply_refuses_scope.
Check multiply_refuses_incompatible. Print Assumptions multiply_refuses_incompatible.
Check evidence_refuses_empty. Print Assumptions evidence_refuses_empty.
Check evidence_refuses_nodom. Print Assumptions evidence_refuses_nodom.
Check evidence_refuses_outside. Print Assumptions evidence_refuses_outside.
Check integrate_ok. Print Assumptions integrate_ok.
Check evidence_ok. Print Assumptions evidence_ok.
Check multiply_ok. Print Assumptions multiply_ok.
Check differentiate_ok. Print Assumptions differentiate_ok.
Check learnable_ids_In. Print Assumptions learnable_ids_In.
Check conjugate_no_new_learnable. Print Assumptions conjugate_no_new_learnable.
Check evidence_no_new_learnable. Print Assumptions evidence_no_new_learnable.
Check integrate_no_new_learnable. Print Assumptions integrate_no_new_learnable.
Check concatenate_no_new_learnable. Print Assumptions concatenate_no_new_learnable.
Check diff_layer_learn. Print Assumptions diff_layer_learn.
Check differentiate_layers. Print Assumptions differentiate_layers.
Check differentiate_no_new_learnable. Print Assumptions differentiate_no_new_learnable.
Check multiply_inputs_learn. Print Assumptions multiply_inputs_learn.
Check multiply_no_new_learnable. Print Assumptions multiply_no_new_learnable.
Check conjugate_learnable_subset. Print Assumptions conjugate_learnable_subset.
Check evidence_learnable_subset. Print Assumptions evidence_learnable_subset.
Check integrate_learnable_subset. Print Assumptions integrate_learnable_subset.
Check concatenate_learnable_subset. Print Assumptions concatenate_learnable_subset.
Check differentiate_learnable_subset. Print Assumptions differentiate_learnable_subset.
Check multiply_learnable_subset. Print Assumptions multiply_learnable_subset.
Check same_shape_structure. Print Assumptions same_shape_structure.
Check conjugate_structure. Print Assumptions conjugate_structure.
Check conjugate_structure_more. Print Assumptions conjugate_structure_more.
Check restr_structure. Print Assumptions restr_structure.
Check evidence_structure. Print Assumptions evidence_structure.
Check integrate_structure. Print Assumptions integrate_structure.
