(* Circ.v — semantic circuits over an abstract commutative semiring: nodes are arbitrary input
   functions, n-ary weighted sums over the concatenation of their inputs, n-ary Hadamard and
   Kronecker products; evaluation appends one vector per node. Shared by every operator theorem. *)
From Coq Require Import List Lia Ring Ring_theory Bool Arith.
Import ListNotations.
From CK Require Import Base.

Section Circ.
Variable R : Type.
Variables (rO rI : R) (radd rmul : R -> R -> R).
Hypothesis Rth : semi_ring_theory rO rI radd rmul (@eq R).
Add Ring Rring : Rth.
Infix "+" := radd. Infix "*" := rmul.
Notation "0" := rO. Notation "1" := rI.
Variable D : Type.
Notation asg := (asg D).
Notation vec := (vec R).
Notation dot := (dot R rO radd rmul).
Notation had := (had R rmul).
Notation kron := (kron R rmul).
Notation dep_on := (dep_on R D).
Notation upd := (upd D).
(* ---------- circuits ---------- *)
Record inp := { iscope : list nat; iunits : nat; ifun : asg -> vec }.
Inductive node := NIn (i : inp) | NSum (W : list vec) (ins : list nat) | NHad (ins : list nat) | NKron (ins : list nat).
Definition circuit := list node.
Definition get (vals : list vec) (i : nat) : vec := nth i vals [].
Definition hadn (xs : list vec) : vec := match xs with [] => [] | v :: vs => fold_left had vs v end.
Definition kronn (xs : list vec) : vec := match xs with [] => [] | v :: vs => fold_left kron vs v end.
Definition eval_node (n : node) (y : asg) (vals : list vec) : vec :=
  match n with
  | NIn i => ifun i y
  | NSum W ins => map (fun w => dot w (concat (map (get vals) ins))) W
  | NHad ins => hadn (map (get vals) ins)
  | NKron ins => kronn (map (get vals) ins)
  end.
Fixpoint eval_from (ns : circuit) (y : asg) (acc : list vec) : list vec :=
  match ns with [] => acc | n :: ns' => eval_from ns' y (acc ++ [eval_node n y acc]) end.
Definition eval (c : circuit) (y : asg) : list vec := eval_from c y [].

Definition node_scope (n : node) (sc : list (list nat)) : list nat :=
  match n with
  | NIn i => iscope i
  | NSum _ ins | NHad ins | NKron ins => concat (map (fun j => nth j sc []) ins)
  end.
Fixpoint scopes_from (ns : circuit) (acc : list (list nat)) :=
  match ns with [] => acc | n :: ns' => scopes_from ns' (acc ++ [node_scope n acc]) end.
Definition scopes c := scopes_from c [].
Definition node_units (n : node) (us : list nat) : nat :=
  match n with
  | NIn i => iunits i
  | NSum W _ => length W
  | NHad ins => match ins with [] => 0%nat | j :: _ => nth j us 0%nat end
  | NKron ins => fold_right Nat.mul 1%nat (map (fun j => nth j us 0%nat) ins)
  end.
Fixpoint units_from (ns : circuit) (acc : list nat) :=
  match ns with [] => acc | n :: ns' => units_from ns' (acc ++ [node_units n acc]) end.
Definition units c := units_from c [].

(* snoc characterisations *)
Lemma eval_from_app a b y acc : eval_from (a ++ b) y acc = eval_from b y (eval_from a y acc).
Proof. revert acc; induction a as [|n a IH]; intros acc; simpl; [reflexivity | apply IH]. Qed.
Lemma eval_snoc pre n y : eval (pre ++ [n]) y = eval pre y ++ [eval_node n y (eval pre y)].
Proof. unfold eval. rewrite eval_from_app. reflexivity. Qed.
Lemma scopes_from_app a b acc : scopes_from (a ++ b) acc = scopes_from b (scopes_from a acc).
Proof. revert acc; induction a as [|n a IH]; intros acc; simpl; [reflexivity | apply IH]. Qed.
Lemma scopes_snoc pre n : scopes (pre ++ [n]) = scopes pre ++ [node_scope n (scopes pre)].
Proof. unfold scopes. rewrite scopes_from_app. reflexivity. Qed.
Lemma units_from_app a b acc : units_from (a ++ b) acc = units_from b (units_from a acc).
Proof. revert acc; induction a as [|n a IH]; intros acc; simpl; [reflexivity | apply IH]. Qed.
Lemma units_snoc pre n : units (pre ++ [n]) = units pre ++ [node_units n (units pre)].
Proof. unfold units. rewrite units_from_app. reflexivity. Qed.
Lemma length_eval_from ns y acc : length (eval_from ns y acc) = (length acc + length ns)%nat.
Proof. revert acc; induction ns as [|n ns IH]; intros acc; simpl; [lia|]. rewrite IH, app_length. simpl. lia. Qed.
Lemma length_eval c y : length (eval c y) = length c.
Proof. unfold eval. rewrite length_eval_from. reflexivity. Qed.
Lemma length_scopes c : length (scopes c) = length c.
Proof. assert (H : forall acc, length (scopes_from c acc) = (length acc + length c)%nat).
  { induction c as [|n c IH]; intros acc; simpl; [lia|]. rewrite IH, app_length. simpl. lia. }
  unfold scopes. rewrite H. reflexivity. Qed.
Lemma length_units c : length (units c) = length c.
Proof. assert (forall acc, length (units_from c acc) = (length acc + length c)%nat).
  { induction c as [|n c IH]; intros acc; simpl; [lia|]. rewrite IH, app_length. simpl. lia. }
  unfold units. rewrite H. reflexivity. Qed.

(* ---------- well-formedness, smoothness, decomposability (Prop form for the prototype) ---------- *)
Definition disjoint (a b : list nat) := forall u, In u a -> ~ In u b.
Fixpoint pairwise_disjoint (ss : list (list nat)) : Prop :=
  match ss with [] => True | s :: r => (forall t, In t r -> disjoint s t) /\ pairwise_disjoint r end.
Definition sameset (a b : list nat) := forall u, In u a <-> In u b.
Definition ok_node (pos : nat) (us : list nat) (sc : list (list nat)) (n : node) : Prop :=
  match n with
  | NIn i => (forall y, length (ifun i y) = iunits i) /\ (forall k, dep_on (iscope i) (fun y => nth k (ifun i y) 0))
  | NSum W ins => ins <> [] /\ (forall j, In j ins -> j < pos)
                  /\ (forall j, In j ins -> sameset (nth j sc []) (concat (map (fun j => nth j sc []) ins)))  (* smooth *)
  | NHad ins => ins <> [] /\ (forall j, In j ins -> j < pos)
                /\ (forall j, In j ins -> nth j us 0%nat = match ins with [] => 0%nat | j0 :: _ => nth j0 us 0%nat end)
                /\ pairwise_disjoint (map (fun j => nth j sc []) ins)                               (* decomposable *)
  | NKron ins => ins <> [] /\ (forall j, In j ins -> j < pos)
                /\ pairwise_disjoint (map (fun j => nth j sc []) ins)
  end.
Inductive ok : circuit -> Prop :=
| ok_nil : ok []
| ok_snoc pre n : ok pre -> ok_node (length pre) (units pre) (scopes pre) n -> ok (pre ++ [n]).


(* ---------- generic list helpers ---------- *)
Lemma nth_snoc_lt {A} (l : list A) x d i : i < length l -> nth i (l ++ [x]) d = nth i l d.
Proof. intros; apply app_nth1; assumption. Qed.
Lemma nth_snoc_eq {A} (l : list A) x d : nth (length l) (l ++ [x]) d = x.
Proof. rewrite app_nth2 by lia. rewrite Nat.sub_diag. reflexivity. Qed.
Lemma list_eq_nth0 (l l' : vec) : length l = length l' -> (forall k, nth k l 0 = nth k l' 0) -> l = l'.
Proof. revert l'; induction l as [|a l IH]; intros [|b l'] HL H; simpl in *; try discriminate; [reflexivity|].
  f_equal; [exact (H 0%nat) | apply IH; [lia | intros k; exact (H (S k))]]. Qed.
Lemma filter_filter {A} (f g : A -> bool) l : filter f (filter g l) = filter (fun x => g x && f x) l.
Proof. induction l as [|a l IH]; simpl; [reflexivity|]. destruct (g a); simpl; [destruct (f a); rewrite IH; reflexivity | exact IH]. Qed.
Lemma seq_add_map a n : seq a n = map (fun k => (a + k)%nat) (seq 0 n).
Proof. revert a; induction n as [|n IH]; intros a; simpl; [reflexivity|]. f_equal; [lia|].
  rewrite (IH (S a)), (IH 1%nat), map_map. apply map_ext. intros; lia. Qed.
Lemma nth_map_dot (W : list vec) x k : nth k (map (fun w => dot w x) W) 0 = dot (nth k W []) x.
Proof. change 0 with ((fun w => dot w x) []). apply map_nth. Qed.

(* ---------- n-ary products ---------- *)
Definition prodl (l : list R) : R := fold_right rmul 1 l.
Lemma nth_fold_had k vs v : nth k (fold_left had vs v) 0 = nth k v 0 * prodl (map (fun x => nth k x 0) vs).
Proof. revert v; induction vs as [|a vs IH]; intros v; simpl; [ring|]. rewrite IH, (nth_had R rO rI radd rmul Rth). ring. Qed.
Lemma nth_hadn k xs : xs <> [] -> nth k (hadn xs) 0 = prodl (map (fun x => nth k x 0) xs).
Proof. destruct xs as [|v vs]; [congruence|]. intros _. simpl. apply nth_fold_had. Qed.
Lemma length_fold_had vs v u : length v = u -> (forall x, In x vs -> length x = u) -> length (fold_left had vs v) = u.
Proof. revert v; induction vs as [|a vs IH]; intros v Hv H; simpl; [exact Hv|].
  apply IH; [rewrite (length_had R rmul), Hv, (H a) by (simpl; auto); apply Nat.min_id | intros; apply H; simpl; auto]. Qed.
Lemma length_hadn xs u : xs <> [] -> (forall x, In x xs -> length x = u) -> length (hadn xs) = u.
Proof. destruct xs as [|v vs]; [congruence|]. intros _ H. simpl. apply length_fold_had; [apply H; simpl; auto | intros; apply H; simpl; auto]. Qed.

Definition prodf (fs : list (list nat * (asg -> R))) (y : asg) : R := prodl (map (fun p => snd p y) fs).
Lemma dep_on_sub S S' f : (forall u, In u S -> In u S') -> dep_on S f -> dep_on S' f.
Proof. intros Hs Hf y y' Ha. apply Hf. intros u Hu. apply Ha, Hs, Hu. Qed.
Lemma prodf_dep fs : (forall p, In p fs -> dep_on (fst p) (snd p)) -> dep_on (concat (map fst fs)) (prodf fs).
Proof. induction fs as [|[S f] fs IH]; intros H y y' Ha; unfold prodf; simpl; [reflexivity|].
  f_equal.
  - apply (H (S, f)); [simpl; auto|]. intros u Hu. apply Ha. simpl. apply in_or_app; auto.
  - apply IH; [intros; apply H; simpl; auto|]. intros u Hu. apply Ha. simpl. apply in_or_app; auto. Qed.
Lemma disjoint_concat S ss : (forall t, In t ss -> disjoint S t) -> disjoint S (concat ss).
Proof. intros H u Hu Hc. apply in_concat in Hc. destruct Hc as [t [Ht Hut]]. exact (H t Ht u Hu Hut). Qed.


Lemma ev_lt pre n y i : i < length pre -> nth i (eval (pre ++ [n]) y) [] = nth i (eval pre y) [].
Proof. intros H. rewrite eval_snoc. apply nth_snoc_lt. rewrite length_eval. exact H. Qed.
Lemma ev_eq pre n y : nth (length pre) (eval (pre ++ [n]) y) [] = eval_node n y (eval pre y).
Proof. rewrite eval_snoc. rewrite <- (length_eval pre y) at 1. apply nth_snoc_eq. Qed.
Lemma sc_lt pre n i : i < length pre -> nth i (scopes (pre ++ [n])) [] = nth i (scopes pre) [].
Proof. intros H. rewrite scopes_snoc. apply nth_snoc_lt. rewrite length_scopes. exact H. Qed.
Lemma sc_eq pre n : nth (length pre) (scopes (pre ++ [n])) [] = node_scope n (scopes pre).
Proof. rewrite scopes_snoc. rewrite <- (length_scopes pre) at 1. apply nth_snoc_eq. Qed.
Lemma un_lt pre n i : i < length pre -> nth i (units (pre ++ [n])) 0%nat = nth i (units pre) 0%nat.
Proof. intros H. rewrite units_snoc. apply nth_snoc_lt. rewrite length_units. exact H. Qed.
Lemma un_eq pre n : nth (length pre) (units (pre ++ [n])) 0%nat = node_units n (units pre).
Proof. rewrite units_snoc. rewrite <- (length_units pre) at 1. apply nth_snoc_eq. Qed.

(* ---------- n-ary Kronecker products ---------- *)
(* Mixed-radix digits of an output index k of a left-nested Kronecker product.  For a product
   [fold_left kron vs v] whose tail factors vs have lengths ls, [khead ls k] is the index into the
   head factor v and [kdigs ls k] lists the indices into the tail factors.  [kidx ls k] lists one
   index per factor of [kronn xs] when ls = map length xs. They only depend on the lengths. *)
Fixpoint khead (ls : list nat) (k : nat) : nat :=
  match ls with [] => k | l :: ls' => (khead ls' k / l)%nat end.
Fixpoint kdigs (ls : list nat) (k : nat) : list nat :=
  match ls with [] => [] | l :: ls' => (khead ls' k mod l)%nat :: kdigs ls' k end.
Definition kidx (ls : list nat) (k : nat) : list nat :=
  match ls with [] => [] | _ :: ls' => khead ls' k :: kdigs ls' k end.
Lemma length_kdigs ls k : length (kdigs ls k) = length ls.
Proof. induction ls as [|l ls IH]; simpl; [reflexivity | rewrite IH; reflexivity]. Qed.
Lemma length_kidx ls k : length (kidx ls k) = length ls.
Proof. destruct ls as [|l ls]; simpl; [reflexivity | rewrite length_kdigs; reflexivity]. Qed.

Lemma length_fold_kron vs v :
  length (fold_left kron vs v) = (length v * fold_right Nat.mul 1%nat (map (@length R) vs))%nat.
Proof. revert v; induction vs as [|a vs IH]; intros v; simpl; [lia|].
  rewrite IH, (length_kron R rmul). lia. Qed.
Lemma length_kronn xs : xs <> [] -> length (kronn xs) = fold_right Nat.mul 1%nat (map (@length R) xs).
Proof. destruct xs as [|v vs]; [congruence|]. intros _. simpl. apply length_fold_kron. Qed.

Lemma nth_fold_kron k vs v :
  nth k (fold_left kron vs v) 0
  = nth (khead (map (@length R) vs) k) v 0
    * prodl (map (fun p => nth (snd p) (fst p) 0) (combine vs (kdigs (map (@length R) vs) k))).
Proof. revert v; induction vs as [|a vs IH]; intros v; simpl; [ring|].
  rewrite IH, (nth_kron R rO rI radd rmul Rth). ring. Qed.
Lemma nth_kronn k xs : xs <> [] ->
  nth k (kronn xs) 0 = prodl (map (fun p => nth (snd p) (fst p) 0) (combine xs (kidx (map (@length R) xs) k))).
Proof. destruct xs as [|v vs]; [congruence|]. intros _. simpl. apply nth_fold_kron. Qed.

Lemma combine_map_l {A B C} (f : A -> B) (l : list A) (l' : list C) :
  combine (map f l) l' = map (fun p => (f (fst p), snd p)) (combine l l').
Proof. revert l'; induction l as [|a l IH]; intros [|c l']; simpl; try reflexivity. f_equal. apply IH. Qed.
Lemma map_fst_combine {A B} (l : list A) (l' : list B) : length l = length l' -> map fst (combine l l') = l.
Proof. revert l'; induction l as [|a l IH]; intros [|c l'] H; simpl in *; try discriminate; [reflexivity|].
  f_equal. apply IH. lia. Qed.

(* the forms used by the operator proofs: factors given as [map f ins] with lengths [u j] *)
Lemma length_kronn_map {A} (f : A -> vec) (u : A -> nat) ins :
  ins <> [] -> (forall j, In j ins -> length (f j) = u j) ->
  length (kronn (map f ins)) = fold_right Nat.mul 1%nat (map u ins).
Proof. intros Hne H. rewrite length_kronn by (intros E; apply map_eq_nil in E; contradiction).
  rewrite map_map. f_equal. apply map_ext_in. exact H. Qed.
Lemma nth_kronn_map {A} (f : A -> vec) (u : A -> nat) ins k :
  ins <> [] -> (forall j, In j ins -> length (f j) = u j) ->
  nth k (kronn (map f ins)) 0
  = prodl (map (fun p => nth (snd p) (f (fst p)) 0) (combine ins (kidx (map u ins) k))).
Proof. intros Hne H. rewrite nth_kronn by (intros E; apply map_eq_nil in E; contradiction).
  rewrite map_map. rewrite (map_ext_in _ u ins H). rewrite combine_map_l, map_map. reflexivity. Qed.

End Circ.
