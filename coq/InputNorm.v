(* InputNorm.v — the discrete input layers of cirkit are normalised.

   [Normalised.normalised_partition] ASSUMES that every input node integrates to the all-ones
   vector over its scope.  Here that hypothesis is discharged for the discrete input layers, with
   integration instantiated by the finite sum over the states 0 .. dom v - 1 of a variable:

     - Categorical with explicit probabilities : normalised  <->  every row sums to one;
     - Categorical with probs = softmax(theta) : normalised (cirkit's default parameterisation);
     - Categorical with logits                 : UNNORMALISED, its integral is  sum_s exp(l_s);
     - Binomial(n, p), states 0 .. n           : normalised for EVERY p of a commutative ring
                                                 (binomial theorem, proved here for semirings).

   Everything is over an abstract commutative semiring / ring / field; no reals, no axioms. *)
From Coq Require Import List Lia Ring Ring_theory Field Field_theory Bool Arith.
Import ListNotations.
From CK Require Import Base Circ Integrate Normalised.

(* ====================================================================== *)
(* A. commutative semiring: finite sums, discrete integration, table      *)
(*    inputs, the binomial theorem                                        *)
(* ====================================================================== *)
Section Semi.
Variable R : Type.
Variables (rO rI : R) (radd rmul : R -> R -> R).
Hypothesis Rth : semi_ring_theory rO rI radd rmul (@eq R).
Add Ring Rring : Rth.
Infix "+" := radd. Infix "*" := rmul.
Notation "0" := rO. Notation "1" := rI.
Notation vec := (vec R).
Notation vsum := (vsum R rO radd).
Notation ones := (ones R rI).

(* ---------- finite sums  T f n = f 0 + ... + f (n-1) ---------- *)
Definition tsum (f : nat -> R) (n : nat) : R := vsum (map f (seq 0 n)).

Lemma vsum_app' a b : vsum (a ++ b) = vsum a + vsum b.
Proof. apply (vsum_app R rO rI radd rmul Rth). Qed.
Lemma tsum_S_l f n : tsum f (S n) = f 0%nat + tsum (fun k => f (S k)) n.
Proof. unfold tsum. simpl. rewrite <- seq_shift, map_map. reflexivity. Qed.
Lemma tsum_S_r f n : tsum f (S n) = tsum f n + f n.
Proof. unfold tsum. rewrite seq_S, map_app, vsum_app'. simpl. ring. Qed.
Lemma tsum_ext f g n : (forall k, k < n -> f k = g k) -> tsum f n = tsum g n.
Proof. intros H. unfold tsum. f_equal. apply map_ext_in. intros k Hk. apply in_seq in Hk. apply H. lia. Qed.
Lemma tsum_add f g n : tsum (fun k => f k + g k) n = tsum f n + tsum g n.
Proof. induction n as [|n IH]; [unfold tsum; simpl; ring|]. rewrite !tsum_S_r, IH. ring. Qed.
Lemma tsum_scal c f n : tsum (fun k => c * f k) n = c * tsum f n.
Proof. induction n as [|n IH]; [unfold tsum; simpl; ring|]. rewrite !tsum_S_r, IH. ring. Qed.
Lemma tsum_zero n : tsum (fun _ => 0) n = 0.
Proof. induction n as [|n IH]; [reflexivity|]. rewrite tsum_S_r, IH. ring. Qed.

(* reading a row through its states: entries beyond the row read as 0 *)
Lemma tsum_nth_row (row : vec) N : length row <= N -> tsum (fun s => nth s row 0) N = vsum row.
Proof.
  revert N; induction row as [|a row IH]; intros N H.
  - rewrite (tsum_ext _ (fun _ => 0)) by (intros [|k] _; reflexivity). apply tsum_zero.
  - destruct N as [|N]; [simpl in H; lia|]. rewrite tsum_S_l. simpl. f_equal. apply IH. simpl in H. lia.
Qed.
Lemma tsum_map_row {A} (h : A -> R) (d : A) (row : list A) :
  tsum (fun s => h (nth s row d)) (length row) = vsum (map h row).
Proof.
  induction row as [|a row IH]; [reflexivity|]. cbn [length]. rewrite tsum_S_l. simpl. f_equal. exact IH.
Qed.

(* ---------- natural-number multiples and powers ---------- *)
Fixpoint nmul (n : nat) (x : R) : R := match n with O => 0 | S n' => x + nmul n' x end.
Fixpoint rpow (x : R) (n : nat) : R := match n with O => 1 | S n' => x * rpow x n' end.
Lemma nmul_add m n x : nmul (m + n) x = nmul m x + nmul n x.
Proof. induction m as [|m IH]; simpl; [ring | rewrite IH; ring]. Qed.
Lemma nmul_scal m c x : nmul m (c * x) = c * nmul m x.
Proof. induction m as [|m IH]; simpl; [ring | rewrite IH; ring]. Qed.
Lemma nmul_as_mul m x : nmul m x = nmul m 1 * x.
Proof. induction m as [|m IH]; simpl; [ring | rewrite IH; ring]. Qed.
Lemma rpow_one n : rpow 1 n = 1.
Proof. induction n as [|n IH]; simpl; [reflexivity | rewrite IH; ring]. Qed.

(* Pascal's triangle; the same recursion as [Exec.binom] *)
Fixpoint choose (n k : nat) : nat :=
  match n, k with
  | _, O => 1%nat
  | O, S _ => 0%nat
  | S n', S k' => (choose n' k' + choose n' k)%nat
  end.
Lemma choose_0 n : choose n 0 = 1%nat.
Proof. destruct n; reflexivity. Qed.
Lemma choose_gt n : forall k, n < k -> choose n k = 0%nat.
Proof. induction n as [|n IH]; intros [|k] H; simpl; try lia. rewrite !IH by lia. reflexivity. Qed.

(* ---------- the binomial theorem in a commutative semiring ---------- *)
Definition bterm (n : nat) (a b : R) (k : nat) : R := nmul (choose n k) (rpow a k * rpow b (n - k)).

Theorem binomial_theorem n a b : tsum (bterm n a b) (S n) = rpow (a + b) n.
Proof.
  induction n as [|n IH].
  - unfold tsum, bterm. simpl. ring.
  - rewrite tsum_S_l.
    (* the k+1 terms split by Pascal's rule *)
    rewrite (tsum_ext (fun k => bterm (S n) a b (S k))
                      (fun k => a * bterm n a b k + nmul (choose n (S k)) (rpow a (S k) * rpow b (n - k)))).
    2:{ intros k _. unfold bterm. cbn [choose]. rewrite nmul_add. f_equal.
        rewrite <- nmul_scal. f_equal. cbn [rpow Nat.sub]. ring. }
    rewrite tsum_add, tsum_scal, IH.
    (* the second family: the last term vanishes, the others are b * (term k+1 of row n) *)
    rewrite tsum_S_r. rewrite (choose_gt n (S n)) by lia. cbn [nmul].
    rewrite (tsum_ext _ (fun k => b * bterm n a b (S k))).
    2:{ intros k Hk. unfold bterm. rewrite <- nmul_scal. f_equal.
        replace (n - k)%nat with (S (n - S k)) by lia. cbn [rpow]. ring. }
    rewrite tsum_scal.
    assert (E0 : bterm (S n) a b 0 = b * bterm n a b 0).
    { unfold bterm. rewrite !choose_0. cbn [nmul rpow Nat.sub]. rewrite Nat.sub_0_r. ring. }
    rewrite E0. cbn [rpow].
    transitivity (a * rpow (a + b) n + b * (bterm n a b 0 + tsum (fun k => bterm n a b (S k)) n)); [ring|].
    rewrite <- tsum_S_l, IH. ring.
Qed.

Corollary binomial_sum_one n p q : p + q = 1 -> tsum (bterm n p q) (S n) = 1.
Proof. intros H. rewrite binomial_theorem, H. apply rpow_one. Qed.

(* ---------- discrete integration: the sum over the states of a variable ---------- *)
Variable D : Type.
Variable enc : nat -> D.       (* the value of the domain that encodes state number s *)
Variable idx : D -> nat.       (* the state number read off a value of the domain *)
Hypothesis idx_enc : forall s, idx (enc s) = s.
Variable dom : nat -> nat.     (* dom v = number of states of variable v *)

Definition fInt (v : nat) (f : D -> R) : R := tsum (fun s => f (enc s)) (dom v).

Lemma fInt_ext v f g : (forall d, f d = g d) -> fInt v f = fInt v g.
Proof. intros H. apply tsum_ext. intros; apply H. Qed.
Lemma fInt_add v f g : fInt v (fun d => f d + g d) = fInt v f + fInt v g.
Proof. apply (tsum_add (fun s => f (enc s)) (fun s => g (enc s))). Qed.
Lemma fInt_scal v c f : fInt v (fun d => c * f d) = c * fInt v f.
Proof. apply (tsum_scal c (fun s => f (enc s))). Qed.

Notation asg := (asg D).
Notation upd := (upd D).
Notation IntL := (IntL R D fInt).
Notation IntV := (IntV R rO D fInt).
Notation node := (node R D).
Notation circuit := (circuit R D).
Notation eval := (eval R rO radd rmul D).
Notation scopes := (scopes R D).
Notation units := (units R D).
Notation ok := (ok R rO D).
Notation ok_node := (ok_node R rO D).
Notation inp := (inp R D).
Notation NIn := (NIn R D).
Notation NSum := (NSum R D).
Notation iscope := (iscope R D).
Notation iunits := (iunits R D).
Notation ifun := (ifun R D).
Notation integrate := (integrate R rO D fInt).
Notation norm_node := (norm_node R rO rI radd D fInt).
Notation dep_on := (dep_on R D).

(* the integral over one variable is the plain sum over its states *)
Lemma IntL_one v (f : asg -> R) y : IntL [v] f y = tsum (fun s => f (upd y v (enc s))) (dom v).
Proof. reflexivity. Qed.

(* ---------- univariate table inputs: one unit per element of [rows] ---------- *)
(* unit number k of the layer, in state s of variable v, has value  g r_k s  *)
Definition rows_inp {A} (v : nat) (rows : list A) (g : A -> nat -> R) : inp :=
  Build_inp R D [v] (length rows) (fun y => map (fun r => g r (idx (y v))) rows).

Lemma ok_rows_inp {A} pos us sc v (rows : list A) g : ok_node pos us sc (NIn (rows_inp v rows g)).
Proof.
  simpl. split.
  - intros y. apply map_length.
  - intros k y y' Ha. rewrite (Ha v) by (simpl; auto). reflexivity.
Qed.

Lemma IntV_cons vs (F : asg -> vec) L y :
  IntV vs F (S L) y = IntL vs (fun y' => nth 0 (F y') 0) y :: IntV vs (fun y' => tl (F y')) L y.
Proof.
  unfold Base.IntV. simpl. f_equal. rewrite <- seq_shift, map_map. apply map_ext. intros k.
  apply (IntL_ext R D fInt fInt_ext). intros y'. symmetry. apply nth_tl.
Qed.

(* integrating a table input over its variable gives, unit by unit, the sum over the states *)
Lemma IntV_rows_inp {A} v (rows : list A) g y :
  IntV [v] (ifun (rows_inp v rows g)) (length rows) y = map (fun r => tsum (g r) (dom v)) rows.
Proof.
  simpl. induction rows as [|r rows IH]; [reflexivity|].
  cbn [length]. rewrite IntV_cons. cbn [map]. f_equal.
  - rewrite IntL_one. apply tsum_ext. intros s _. cbn [map nth].
    unfold Base.upd. rewrite Nat.eqb_refl, idx_enc. reflexivity.
  - exact IH.
Qed.

(* per unit and in words: the sum over all states s of the unit's value at s *)
Lemma rows_inp_states_sum {A} v (rows : list A) g (d : A) y k : k < length rows ->
  tsum (fun s => nth k (ifun (rows_inp v rows g) (upd y v (enc s))) 0) (dom v) = tsum (g (nth k rows d)) (dom v).
Proof.
  intros Hk.
  transitivity (IntL [v] (fun y' => nth k (ifun (rows_inp v rows g) y') 0) y); [reflexivity|].
  rewrite <- (nth_IntV R rO D fInt [v] _ (length rows)) by exact Hk.
  rewrite IntV_rows_inp. rewrite (nth_indep _ 0 ((fun r => tsum (g r) (dom v)) d)) by (rewrite map_length; exact Hk).
  apply (map_nth (fun r => tsum (g r) (dom v))).
Qed.

(* the variables that are integrated: [zs_of Z [v]] is [v] itself when v is (once) in Z *)
Lemma mem_single u v : mem u [v] = Nat.eqb u v.
Proof. unfold mem. simpl. rewrite Nat.eqb_sym. apply orb_false_r. Qed.
Lemma zs_of_single Z v : NoDup Z -> In v Z -> zs_of Z [v] = [v].
Proof.
  unfold zs_of. induction 1 as [|a Z Ha Hnd IH]; intros Hin; [destruct Hin|].
  cbn [filter]. rewrite mem_single. destruct (Nat.eqb_spec a v) as [->|Hne].
  - f_equal. clear IH Hin Hnd. induction Z as [|b Z IH]; [reflexivity|].
    cbn [filter]. rewrite mem_single. destruct (Nat.eqb_spec b v) as [->|_]; [exfalso; apply Ha; simpl; auto|].
    apply IH. intros Hc. apply Ha. simpl; auto.
  - apply IH. destruct Hin; [congruence | assumption].
Qed.
Lemma zs_of_single_out Z v : ~ In v Z -> zs_of Z [v] = [].
Proof.
  unfold zs_of. induction Z as [|a Z IH]; intros H; [reflexivity|].
  cbn [filter]. rewrite mem_single. destruct (Nat.eqb_spec a v) as [->|_]; [exfalso; apply H; simpl; auto|].
  apply IH. intros Hc. apply H. simpl; auto.
Qed.

Lemma map_eq_ones {A} (f : A -> R) (l : list A) : map f l = ones (length l) <-> (forall x, In x l -> f x = 1).
Proof.
  split; [|apply map_const_ones].
  induction l as [|a l IH]; intros H x Hx; [destruct Hx|].
  unfold Normalised.ones in H. simpl in H. injection H as H1 H2. destruct Hx as [<-|Hx]; [exact H1|].
  apply IH; assumption.
Qed.

(* THE CRITERION: a table input satisfies the input hypothesis of [normalised_partition]
   exactly when every unit sums to one over the states of the variable *)
Theorem norm_rows_inp_iff {A} Z us v (rows : list A) g : NoDup Z -> In v Z ->
  (norm_node Z us (NIn (rows_inp v rows g)) <-> forall r, In r rows -> tsum (g r) (dom v) = 1).
Proof.
  intros Hnd Hin. simpl. rewrite (zs_of_single Z v Hnd Hin). split.
  - intros [H _]. specialize (H (fun _ => enc 0%nat)).
    pose proof (IntV_rows_inp v rows g (fun _ => enc 0%nat)) as E. simpl in E. rewrite E in H.
    apply (map_eq_ones (fun r => tsum (g r) (dom v))). exact H.
  - intros H. split.
    + intros y. pose proof (IntV_rows_inp v rows g y) as E. simpl in E. rewrite E.
      apply (map_eq_ones (fun r => tsum (g r) (dom v))). exact H.
    + intros u [<-|[]]. exact Hin.
Qed.
Corollary norm_rows_inp {A} Z us v (rows : list A) g : NoDup Z -> In v Z ->
  (forall r, In r rows -> tsum (g r) (dom v) = 1) -> norm_node Z us (NIn (rows_inp v rows g)).
Proof. intros Hnd Hin. apply (norm_rows_inp_iff Z us v rows g Hnd Hin). Qed.

(* ---------- 3a. Categorical layer with explicit probabilities ---------- *)
(* W : one row of N = dom v probabilities per unit; value of unit k in state s is W[k][s] *)
Definition cat_probs (v : nat) (W : list vec) : inp := rows_inp v W (fun row s => nth s row 0).

Lemma cat_probs_integral v W y : (forall w, In w W -> length w <= dom v) ->
  IntV [v] (ifun (cat_probs v W)) (length W) y = map vsum W.
Proof.
  intros HL. unfold cat_probs. rewrite IntV_rows_inp. apply map_ext_in. intros w Hw. apply tsum_nth_row, HL, Hw.
Qed.

Theorem cat_probs_norm_iff Z us v W : NoDup Z -> In v Z -> (forall w, In w W -> length w <= dom v) ->
  (norm_node Z us (NIn (cat_probs v W)) <-> forall w, In w W -> vsum w = 1).
Proof.
  intros Hnd Hin HL. unfold cat_probs. rewrite (norm_rows_inp_iff Z us v W _ Hnd Hin).
  split; intros H w Hw; [rewrite <- (tsum_nth_row w (dom v)) by (apply HL, Hw) | rewrite tsum_nth_row by (apply HL, Hw)]; apply H, Hw.
Qed.

(* ---------- 3b. Categorical layer with logits: UNNORMALISED ---------- *)
(* cirkit evaluates exp(logits[k][s]) and reports log Z = logsumexp(logits[k]); no property of
   [ex] is used: the integral of unit k is the sum of the exponentials of its row *)
Variable ex : R -> R.
Definition cat_logits (v : nat) (L : list vec) : inp := rows_inp v L (fun row s => ex (nth s row 0)).

Theorem cat_logits_integral v L y : (forall l, In l L -> length l = dom v) ->
  IntV [v] (ifun (cat_logits v L)) (length L) y = map (fun l => vsum (map ex l)) L.
Proof.
  intros HL. unfold cat_logits. rewrite IntV_rows_inp. apply map_ext_in. intros l Hl.
  rewrite <- (HL l Hl). apply (tsum_map_row ex 0 l).
Qed.
Corollary cat_logits_integral_unit v L y k : (forall l, In l L -> length l = dom v) -> k < length L ->
  IntL [v] (fun y' => nth k (ifun (cat_logits v L) y') 0) y = vsum (map ex (nth k L [])).
Proof.
  intros HL Hk. rewrite <- (nth_IntV R rO D fInt [v] _ (length L)) by exact Hk.
  rewrite cat_logits_integral by exact HL.
  rewrite (nth_indep _ 0 ((fun l => vsum (map ex l)) [])) by (rewrite map_length; exact Hk).
  apply (map_nth (fun l => vsum (map ex l))).
Qed.
(* hence a logits layer is normalised iff every row of exponentials happens to sum to one *)
Corollary cat_logits_norm_iff Z us v L : NoDup Z -> In v Z -> (forall l, In l L -> length l = dom v) ->
  (norm_node Z us (NIn (cat_logits v L)) <-> forall l, In l L -> vsum (map ex l) = 1).
Proof.
  intros Hnd Hin HL. unfold cat_logits. rewrite (norm_rows_inp_iff Z us v L _ Hnd Hin).
  split; intros H l Hl; [rewrite <- (tsum_map_row ex 0 l) | rewrite <- (HL l Hl), (tsum_map_row ex 0 l)];
    [rewrite (HL l Hl)|]; apply H, Hl.
Qed.

(* ---------- 2. Binomial layer, semiring form: success / failure weights (p, q) ---------- *)
(* states 0 .. n (so dom v = n + 1); unit with weights (p, q) has value C(n,s) p^s q^(n-s) *)
Definition bin_inp2 (v n : nat) (pqs : list (R * R)) : inp :=
  rows_inp v pqs (fun pq s => bterm n (fst pq) (snd pq) s).

Theorem bin_inp2_integral v n pqs y : dom v = S n ->
  IntV [v] (ifun (bin_inp2 v n pqs)) (length pqs) y = map (fun pq => rpow (fst pq + snd pq) n) pqs.
Proof.
  intros Hd. unfold bin_inp2. rewrite IntV_rows_inp. apply map_ext. intros pq. rewrite Hd. apply binomial_theorem.
Qed.
Theorem bin_inp2_norm Z us v n pqs : NoDup Z -> In v Z -> dom v = S n ->
  (forall pq, In pq pqs -> fst pq + snd pq = 1) -> norm_node Z us (NIn (bin_inp2 v n pqs)).
Proof.
  intros Hnd Hin Hd H. unfold bin_inp2. apply norm_rows_inp; [exact Hnd | exact Hin|].
  intros pq Hpq. rewrite Hd. apply binomial_sum_one, H, Hpq.
Qed.

(* ---------- weight rows that sum to one ---------- *)
Inductive unit_row0 : vec -> Prop :=
| ur0_sum w : vsum w = 1 -> unit_row0 w
| ur0_mixing K k row : k < K -> unit_row0 row -> unit_row0 (mixing_row R rO K k row).
Lemma unit_row0_sum w : unit_row0 w -> vsum w = 1.
Proof. induction 1 as [w H | K k row Hk _ IH]; [exact H|]. rewrite (mixing_row_sum R rO rI radd rmul Rth) by exact Hk. exact IH. Qed.

(* ---------- 4 (semiring form). circuits of normalised table inputs ---------- *)
(* the discrete input layers available in a semiring *)
Inductive norm_inp0 (Z : list nat) : inp -> Prop :=
| ni0_rows {A} v (rows : list A) g : In v Z -> (forall r, In r rows -> tsum (g r) (dom v) = 1) ->
    norm_inp0 Z (rows_inp v rows g)
| ni0_probs v W : In v Z -> (forall w, In w W -> length w <= dom v /\ vsum w = 1) -> norm_inp0 Z (cat_probs v W)
| ni0_bin2 v n pqs : In v Z -> dom v = S n -> (forall pq, In pq pqs -> fst pq + snd pq = 1) ->
    norm_inp0 Z (bin_inp2 v n pqs).

Lemma norm_inp0_node Z us i : NoDup Z -> norm_inp0 Z i -> norm_node Z us (NIn i).
Proof.
  intros Hnd [A v rows g Hin H | v W Hin H | v n pqs Hin Hd H].
  - apply norm_rows_inp; assumption.
  - apply (cat_probs_norm_iff Z us v W Hnd Hin); intros w Hw; apply (H w Hw).
  - apply bin_inp2_norm; assumption.
Qed.

Theorem normalised_partition_discrete0 Z (c : circuit) : NoDup Z -> ok c ->
  (forall i, In (NIn i) c -> norm_inp0 Z i) ->
  (forall W ins, In (NSum W ins) c -> forall w, In w W ->
     unit_row0 w /\ length w = sumu (fun j => nth j (units c) 0%nat) ins) ->
  forall y o, o < length c -> nth o (eval (integrate Z c) y) [] = ones (nth o (units c) 0%nat).
Proof.
  intros Hnd Hok HI HS. apply (normalised_partition R rO rI radd rmul Rth D fInt Z c Hok).
  intros n Hn. destruct n as [i | W ins | ins | ins]; try exact I.
  - apply norm_inp0_node; [exact Hnd | apply HI, Hn].
  - simpl. intros w Hw. destruct (HS W ins Hn w Hw) as [H1 H2]. split; [apply unit_row0_sum, H1 | exact H2].
Qed.

End Semi.

(* ====================================================================== *)
(* B. commutative ring: the Binomial layer with success probability p and *)
(*    failure probability 1 - p is normalised for EVERY p                 *)
(* ====================================================================== *)
Section RingS.
Variable R : Type.
Variables (rO rI : R) (radd rmul rsub : R -> R -> R) (ropp : R -> R).
Hypothesis Rth : ring_theory rO rI radd rmul rsub ropp (@eq R).
Add Ring Rring2 : Rth.
Infix "+" := radd. Infix "*" := rmul. Infix "-" := rsub.
Notation "0" := rO. Notation "1" := rI.
Notation vec := (vec R).

(* every commutative ring is a commutative semiring *)
Lemma ring_srt : semi_ring_theory rO rI radd rmul (@eq R).
Proof. constructor; intros; ring. Qed.

Notation tsum := (tsum R rO radd).
Notation bterm := (bterm R rO rI radd rmul).
Notation rpow := (rpow R rI rmul).
Notation ones := (ones R rI).

(* sum_{k=0}^{n} C(n,k) p^k (1-p)^(n-k) = 1 *)
Theorem binomial_pmf_sum n p : tsum (bterm n p (1 - p)) (S n) = 1.
Proof. apply (binomial_sum_one R rO rI radd rmul ring_srt). ring. Qed.

Variable D : Type.
Variable enc : nat -> D.
Variable idx : D -> nat.
Hypothesis idx_enc : forall s, idx (enc s) = s.
Variable dom : nat -> nat.
Notation fInt := (fInt R rO radd D enc dom).
Notation IntV := (IntV R rO D fInt).
Notation IntL := (IntL R D fInt).
Notation inp := (inp R D).
Notation NIn := (NIn R D).
Notation ifun := (ifun R D).
Notation norm_node := (norm_node R rO rI radd D fInt).
Notation rows_inp := (rows_inp R D idx).

(* cirkit's Binomial layer: total_count = n, states 0 .. n, one success probability per unit *)
Definition bin_inp (v n : nat) (ps : vec) : inp := rows_inp v ps (fun p s => bterm n p (1 - p) s).

Theorem bin_inp_integral v n ps y : dom v = S n ->
  IntV [v] (ifun (bin_inp v n ps)) (length ps) y = ones (length ps).
Proof.
  intros Hd. unfold bin_inp. rewrite (IntV_rows_inp R rO radd D enc idx idx_enc dom).
  apply map_const_ones. intros p _. rewrite Hd. apply binomial_pmf_sum.
Qed.
Theorem bin_inp_norm Z us v n ps : NoDup Z -> In v Z -> dom v = S n -> norm_node Z us (NIn (bin_inp v n ps)).
Proof.
  intros Hnd Hin Hd. unfold bin_inp.
  apply (norm_rows_inp R rO rI radd D enc idx idx_enc dom); [exact Hnd | exact Hin|].
  intros p _. rewrite Hd. apply binomial_pmf_sum.
Qed.
(* the sum over the states 0 .. n of unit k is one, in plain words *)
Corollary bin_inp_states_sum v n ps y k : dom v = S n -> k < length ps ->
  tsum (fun s => nth k (ifun (bin_inp v n ps) (upd D y v (enc s))) 0) (S n) = 1.
Proof.
  intros Hd Hk. rewrite <- Hd. unfold bin_inp.
  rewrite (rows_inp_states_sum R rO radd D enc idx idx_enc dom v ps _ 0 y k Hk).
  rewrite Hd. apply binomial_pmf_sum.
Qed.
(* the logits parameterisation p = sigmoid(l) is the instance ps := map sg ls; nothing about
   [sg] is needed *)
Corollary bin_logits_norm (sg : R -> R) Z us v n ls : NoDup Z -> In v Z -> dom v = S n ->
  norm_node Z us (NIn (bin_inp v n (map sg ls))).
Proof. apply bin_inp_norm. Qed.
(* with the wrong number of states the layer is not normalised in general: summing only the
   states 0 .. n-1 misses the term p^n (see the examples at the end) *)
End RingS.

(* ====================================================================== *)
(* C. field: softmax-parameterised Categorical layers and the combined    *)
(*    corollary                                                           *)
(* ====================================================================== *)
Section FieldS.
Variable R : Type.
Variables (rO rI : R) (radd rmul rsub : R -> R -> R) (ropp : R -> R) (rdiv : R -> R -> R) (rinv : R -> R).
Hypothesis Fth : field_theory rO rI radd rmul rsub ropp rdiv rinv (@eq R).
Add Field Rfield2 : Fth.
Infix "+" := radd. Infix "*" := rmul. Infix "-" := rsub. Infix "/" := rdiv.
Notation "0" := rO. Notation "1" := rI.
Notation vec := (vec R).
Notation vsum := (vsum R rO radd).
Notation tsum := (tsum R rO radd).
Notation ones := (ones R rI).
Let srt : semi_ring_theory rO rI radd rmul (@eq R) := field_srt R rO rI radd rmul rsub ropp rdiv rinv Fth.
Let rth : ring_theory rO rI radd rmul rsub ropp (@eq R) := F_R Fth.

Variable ex : R -> R.          (* the exponential; no property is needed *)
Definition softmax_row (th : vec) : vec := map (fun x => x / vsum (map ex th)) (map ex th).

Lemma softmax_row_unit th : vsum (map ex th) <> 0 -> vsum (softmax_row th) = 1.
Proof. apply (softmax_row_sum R rO rI radd rmul rsub ropp rdiv rinv Fth). Qed.
Lemma length_softmax_row th : length (softmax_row th) = length th.
Proof. unfold softmax_row. rewrite !map_length. reflexivity. Qed.

(* the side condition  sum exp(theta) <> 0  holds whenever exp is positive *)
Section Positive.
Variable pos : R -> Prop.
Hypothesis pos_add : forall a b, pos a -> pos b -> pos (a + b).
Hypothesis pos_ne0 : forall a, pos a -> a <> 0.
Hypothesis pos_ex : forall x, pos (ex x).
Lemma vsum_ex_pos th : th <> [] -> pos (vsum (map ex th)).
Proof.
  induction th as [|a th IH]; [congruence|]. intros _. destruct th as [|b th].
  - simpl. replace (ex a + 0) with (ex a) by ring. apply pos_ex.
  - change (pos (ex a + vsum (map ex (b :: th)))). apply pos_add; [apply pos_ex | apply IH; discriminate].
Qed.
Lemma vsum_ex_ne0 th : th <> [] -> vsum (map ex th) <> 0.
Proof. intros H. apply pos_ne0, vsum_ex_pos, H. Qed.
End Positive.

Variable D : Type.
Variable enc : nat -> D.
Variable idx : D -> nat.
Hypothesis idx_enc : forall s, idx (enc s) = s.
Variable dom : nat -> nat.
Notation fInt := (fInt R rO radd D enc dom).
Notation IntV := (IntV R rO D fInt).
Notation IntL := (IntL R D fInt).
Notation asg := (asg D).
Notation node := (node R D).
Notation circuit := (circuit R D).
Notation eval := (eval R rO radd rmul D).
Notation scopes := (scopes R D).
Notation units := (units R D).
Notation ok := (ok R rO D).
Notation inp := (inp R D).
Notation NIn := (NIn R D).
Notation NSum := (NSum R D).
Notation ifun := (ifun R D).
Notation integrate := (integrate R rO D fInt).
Notation norm_node := (norm_node R rO rI radd D fInt).
Notation rows_inp := (rows_inp R D idx).
Notation cat_probs := (cat_probs R rO D idx).
Notation bin_inp := (bin_inp R rO rI radd rmul rsub D idx).
Notation mixing_row := (mixing_row R rO).

(* ---------- 1. Categorical layer with probs = softmax(theta, axis=-1) ---------- *)
Definition cat_softmax (v : nat) (Th : list vec) : inp := cat_probs v (map softmax_row Th).

Theorem cat_softmax_integral v Th y :
  (forall th, In th Th -> length th <= dom v /\ vsum (map ex th) <> 0) ->
  IntV [v] (ifun (cat_softmax v Th)) (length Th) y = ones (length Th).
Proof.
  intros H. unfold cat_softmax.
  pose proof (cat_probs_integral R rO rI radd rmul srt D enc idx idx_enc dom v (map softmax_row Th) y) as E.
  rewrite map_length in E. transitivity (map vsum (map softmax_row Th)).
  - apply E. intros w Hw. apply in_map_iff in Hw. destruct Hw as [th [<- Hth]]. rewrite length_softmax_row. apply H, Hth.
  - rewrite map_map. apply map_const_ones. intros th Hth. apply softmax_row_unit, H, Hth.
Qed.

Theorem cat_softmax_norm Z us v Th : NoDup Z -> In v Z ->
  (forall th, In th Th -> length th <= dom v /\ vsum (map ex th) <> 0) ->
  norm_node Z us (NIn (cat_softmax v Th)).
Proof.
  intros Hnd Hin H. unfold cat_softmax.
  apply (cat_probs_norm_iff R rO rI radd rmul srt D enc idx idx_enc dom Z us v _ Hnd Hin).
  - intros w Hw. apply in_map_iff in Hw. destruct Hw as [th [<- Hth]]. rewrite length_softmax_row. apply H, Hth.
  - intros w Hw. apply in_map_iff in Hw. destruct Hw as [th [<- Hth]]. apply softmax_row_unit, H, Hth.
Qed.

(* in plain words: the sum over all states s of unit k of the layer at s is one *)
Corollary cat_softmax_states_sum v Th y k :
  (forall th, In th Th -> length th <= dom v /\ vsum (map ex th) <> 0) -> k < length Th ->
  tsum (fun s => nth k (ifun (cat_softmax v Th) (upd D y v (enc s))) 0) (dom v) = 1.
Proof.
  intros H Hk.
  transitivity (IntL [v] (fun y' => nth k (ifun (cat_softmax v Th) y') 0) y); [reflexivity|].
  rewrite <- (nth_IntV R rO D fInt [v] _ (length Th)) by exact Hk.
  rewrite cat_softmax_integral by exact H. apply nth_ones, Hk.
Qed.

(* ---------- weight rows that sum to one ---------- *)
Inductive unit_row : vec -> Prop :=
| ur_sum w : vsum w = 1 -> unit_row w                                        (* any row of unit sum *)
| ur_softmax th : vsum (map ex th) <> 0 -> unit_row (softmax_row th)          (* softmax(theta)      *)
| ur_mixing K k row : k < K -> unit_row row -> unit_row (mixing_row K k row). (* mixing weights      *)
Lemma unit_row_sum w : unit_row w -> vsum w = 1.
Proof.
  induction 1 as [w H | th H | K k row Hk _ IH]; [exact H | apply softmax_row_unit, H |].
  rewrite (mixing_row_sum R rO rI radd rmul srt) by exact Hk. exact IH.
Qed.

(* ---------- 4. the combined corollary ---------- *)
(* normalised discrete input layers: any mix of the following *)
Inductive norm_inp (Z : list nat) : inp -> Prop :=
| ni_softmax v Th : In v Z -> (forall th, In th Th -> length th <= dom v /\ vsum (map ex th) <> 0) ->
    norm_inp Z (cat_softmax v Th)
| ni_probs v W : In v Z -> (forall w, In w W -> length w <= dom v /\ vsum w = 1) ->
    norm_inp Z (cat_probs v W)
| ni_binomial v n ps : In v Z -> dom v = S n -> norm_inp Z (bin_inp v n ps)
| ni_table {A} v (rows : list A) g : In v Z -> (forall r, In r rows -> tsum (g r) (dom v) = 1) ->
    norm_inp Z (rows_inp v rows g).

Lemma norm_inp_node Z us i : NoDup Z -> norm_inp Z i -> norm_node Z us (NIn i).
Proof.
  intros Hnd [v Th Hin H | v W Hin H | v n ps Hin Hd | A v rows g Hin H].
  - apply cat_softmax_norm; assumption.
  - apply (cat_probs_norm_iff R rO rI radd rmul srt D enc idx idx_enc dom Z us v W Hnd Hin);
      intros w Hw; apply (H w Hw).
  - apply (bin_inp_norm R rO rI radd rmul rsub ropp rth D enc idx idx_enc dom); assumption.
  - apply (norm_rows_inp R rO rI radd D enc idx idx_enc dom); assumption.
Qed.

(* every input layer of the kinds above is well-formed, so [ok c] only has to be checked on the
   sum and product nodes *)
Lemma norm_inp_ok Z pos us sc i : norm_inp Z i -> ok_node R rO D pos us sc (NIn i).
Proof. intros [v Th _ _ | v W _ _ | v n ps _ _ | A v rows g _ _]; apply ok_rows_inp. Qed.

Theorem normalised_partition_discrete Z (c : circuit) : NoDup Z -> ok c ->
  (forall i, In (NIn i) c -> norm_inp Z i) ->
  (forall W ins, In (NSum W ins) c -> forall w, In w W ->
     unit_row w /\ length w = sumu (fun j => nth j (units c) 0%nat) ins) ->
  forall y o, o < length c -> nth o (eval (integrate Z c) y) [] = ones (nth o (units c) 0%nat).
Proof.
  intros Hnd Hok HI HS. apply (normalised_partition R rO rI radd rmul srt D fInt Z c Hok).
  intros n Hn. destruct n as [i | W ins | ins | ins]; try exact I.
  - apply norm_inp_node; [exact Hnd | apply HI, Hn].
  - simpl. intros w Hw. destruct (HS W ins Hn w Hw) as [H1 H2]. split; [apply unit_row_sum, H1 | exact H2].
Qed.

(* the partition function itself: summing unit k of node o over all states of all the
   variables of its scope gives one *)
Corollary partition_function_one Z (c : circuit) : NoDup Z -> ok c ->
  (forall i, In (NIn i) c -> norm_inp Z i) ->
  (forall W ins, In (NSum W ins) c -> forall w, In w W ->
     unit_row w /\ length w = sumu (fun j => nth j (units c) 0%nat) ins) ->
  forall y o k, o < length c -> k < nth o (units c) 0%nat ->
  IntL (zs_of Z (nth o (scopes c) [])) (fun y' => nth k (nth o (eval c y') []) 0) y = 1.
Proof.
  intros Hnd Hok HI HS y o k Ho Hk.
  rewrite <- (integrate_correct R rO rI radd rmul srt D fInt
                (fInt_ext R rO radd D enc dom) (fInt_add R rO rI radd rmul srt D enc dom)
                (fInt_scal R rO rI radd rmul srt D enc dom) Z c Hok o k y Ho).
  rewrite (normalised_partition_discrete Z c Hnd Hok HI HS y o Ho). apply nth_ones, Hk.
Qed.

(* ---------- 1'. the corollary asked for: softmax-Categorical inputs, softmax / mixing sums ---------- *)
Corollary softmax_circuit_partition Z (c : circuit) : NoDup Z -> ok c ->
  (forall i, In (NIn i) c -> exists v Th, i = cat_softmax v Th /\ In v Z /\
       forall th, In th Th -> length th <= dom v /\ vsum (map ex th) <> 0) ->
  (forall W ins, In (NSum W ins) c -> forall w, In w W ->
     length w = sumu (fun j => nth j (units c) 0%nat) ins /\
     ((exists th, w = softmax_row th /\ vsum (map ex th) <> 0) \/
      (exists K k row, w = mixing_row K k row /\ k < K /\ vsum row = 1))) ->
  forall y o k, o < length c -> k < nth o (units c) 0%nat ->
  nth k (nth o (eval (integrate Z c) y) []) 0 = 1 /\
  IntL (zs_of Z (nth o (scopes c) [])) (fun y' => nth k (nth o (eval c y') []) 0) y = 1.
Proof.
  intros Hnd Hok HI HS y o k Ho Hk.
  assert (HI' : forall i, In (NIn i) c -> norm_inp Z i).
  { intros i Hi. destruct (HI i Hi) as [v [Th [-> [Hin H]]]]. apply ni_softmax; assumption. }
  assert (HS' : forall W ins, In (NSum W ins) c -> forall w, In w W ->
     unit_row w /\ length w = sumu (fun j => nth j (units c) 0%nat) ins).
  { intros W ins HW w Hw. destruct (HS W ins HW w Hw) as [HL [[th [-> H]] | [K [k' [row [-> [Hk' H]]]]]]]; split; try exact HL.
    - apply ur_softmax, H.
    - apply ur_mixing; [exact Hk' | apply ur_sum, H]. }
  split.
  - rewrite (normalised_partition_discrete Z c Hnd Hok HI' HS' y o Ho). apply nth_ones, Hk.
  - apply partition_function_one; assumption.
Qed.

End FieldS.

(* ====================================================================== *)
(* D. non-vacuity: closed instances over Z and over the rationals Qc      *)
(* ====================================================================== *)
From Coq Require Import ZArith QArith Qcanon.
From Coq Require InitialRing.

Module ExampleZ.
(* the binomial theorem and the Binomial normalisation hold in ANY commutative ring, e.g. over Z
   with the "probability" p = 3 (so 1 - p = -2):  -8 + 36 - 54 + 27 = 1 *)
Definition Zth : ring_theory 0%Z 1%Z Z.add Z.mul Z.sub Z.opp (@eq Z) := InitialRing.Zth.
Notation tsumZ := (tsum Z 0%Z Z.add).
Notation btermZ := (bterm Z 0%Z 1%Z Z.add Z.mul).
Example bin3_terms : map (btermZ 3 3%Z (1 - 3)%Z) (seq 0 4) = [-8; 36; -54; 27]%Z.
Proof. vm_compute. reflexivity. Qed.
Example bin3_sum : tsumZ (btermZ 3 3%Z (1 - 3)%Z) 4 = 1%Z.
Proof. vm_compute. reflexivity. Qed.
Example bin3_sum_thm : tsumZ (btermZ 3 3%Z (1 - 3)%Z) 4 = 1%Z.
Proof. apply (binomial_pmf_sum Z 0%Z 1%Z Z.add Z.mul Z.sub Z.opp Zth 3 3%Z). Qed.
(* (2 + 5)^4 = 2401 *)
Example binomial_2_5 : tsumZ (btermZ 4 2%Z 5%Z) 5 = 2401%Z.
Proof. vm_compute. reflexivity. Qed.
(* with one state too few (states 0 .. n-1 only) the term p^n = 27 is missing *)
Example bin3_wrong_domain : tsumZ (btermZ 3 3%Z (1 - 3)%Z) 3 = (-26)%Z.
Proof. vm_compute. reflexivity. Qed.
End ExampleZ.

Module ExampleQ.
Local Open Scope Qc_scope.
Definition q (a : Z) (b : positive) : Qc := Q2Qc (a # b).
Definition Qcsrt : semi_ring_theory 0 1 Qcplus Qcmult (@eq Qc) :=
  field_srt Qc 0 1 Qcplus Qcmult Qcminus Qcopp Qcdiv Qcinv Qcft.
Notation tsumQ := (tsum Qc 0 Qcplus).
Notation btermQ := (bterm Qc 0 1 Qcplus Qcmult).
Notation vsumQ := (Base.vsum Qc 0 Qcplus).

(* Binomial(n = 3, p = 1/4): 27/64 + 27/64 + 9/64 + 1/64 = 1 *)
Example bin3_terms : map (fun k => this (btermQ 3 (q 1 4) (1 - q 1 4) k)) (seq 0 4)
                     = [27 # 64; 27 # 64; 9 # 64; 1 # 64]%Q.
Proof. vm_compute. reflexivity. Qed.
Example bin3_sum : tsumQ (btermQ 3 (q 1 4) (1 - q 1 4)) 4 = 1.
Proof. apply Qc_is_canon. vm_compute. reflexivity. Qed.
Example bin3_wrong_domain : this (tsumQ (btermQ 3 (q 1 4) (1 - q 1 4)) 3) = (63 # 64)%Q.
Proof. vm_compute. reflexivity. Qed.

(* a stand-in for the exponential (any function does; this one is positive) *)
Definition exq (x : Qc) : Qc := 1 + x * x.
Notation softmaxQ := (softmax_row Qc 0 Qcplus Qcdiv exq).
Example softmax_ex : map this (softmaxQ [q 0 1; q 1 1; q 2 1]) = [1 # 8; 1 # 4; 5 # 8]%Q.
Proof. vm_compute. reflexivity. Qed.

(* variables: 0 with two states, 1 with four states (a Binomial with total_count = 3);
   the domain is nat itself, every state encodes itself *)
Definition domx (v : nat) : nat := match v with O => 2%nat | _ => 4%nat end.
Notation fIntQ := (fInt Qc 0 Qcplus nat (fun s => s) domx).
Notation cat_softmaxQ := (cat_softmax Qc 0 Qcplus Qcdiv exq nat (fun d => d)).
Notation cat_probsQ := (cat_probs Qc 0 nat (fun d => d)).
Notation cat_logitsQ := (cat_logits Qc 0 nat (fun d => d) exq).
Notation bin_inpQ := (bin_inp Qc 0 1 Qcplus Qcmult Qcminus nat (fun d => d)).
Notation NInQ := (Circ.NIn Qc nat).
Notation NSumQ := (Circ.NSum Qc nat).
Notation NHadQ := (Circ.NHad Qc nat).
Notation NKronQ := (Circ.NKron Qc nat).
Notation evalQ := (Circ.eval Qc 0 Qcplus Qcmult nat).
Notation integrateQ := (Integrate.integrate Qc 0 nat fIntQ).

(* a Categorical layer with logits is NOT normalised: its integral is the sum of the exponentials *)
Example logits_unnormalised :
  map this (Base.IntV Qc 0 nat fIntQ [0%nat] (Circ.ifun Qc nat (cat_logitsQ 0%nat [[q 0 1; q 1 1]; [q 2 1; q 1 2]])) 2 (fun _ => 0%nat))
  = [3 # 1; 25 # 4]%Q.
Proof. vm_compute. reflexivity. Qed.

(* the circuit:
     0: softmax-Categorical on variable 0, two units     1: Binomial(3, p) on variable 1, two units
     2: explicit-probability Categorical on variable 0   3: Hadamard product of 0 and 1
     4: Kronecker product of 2 and 1 (four units)
     5: sum over (3, 4) with a softmax row, a row of explicit weights and a mixing row *)
Definition n0 := NInQ (cat_softmaxQ 0%nat [[q 0 1; q 1 1]; [q 2 1; q 1 2]]).
Definition n1 := NInQ (bin_inpQ 1%nat 3%nat [q 1 4; q 2 3]).
Definition n2 := NInQ (cat_probsQ 0%nat [[q 1 3; q 2 3]; [q 1 1; q 0 1]]).
Definition n3 := NHadQ [0; 1]%nat.
Definition n4 := NKronQ [2; 1]%nat.
Definition n5 := NSumQ [ softmaxQ [q 1 1; q 3 1; q 0 1; q 0 1; q 2 1; q 1 2];
                         [q 1 2; q 0 1; q 1 4; q 0 1; q 0 1; q 1 4];
                         Normalised.mixing_row Qc 0 3 1 [q 1 3; q 2 3] ] [3; 4]%nat.
Definition cex : Circ.circuit Qc nat := [n0; n1; n2; n3; n4; n5].
Definition Zx : list nat := [0; 1]%nat.

Example cex_units : Circ.units Qc nat cex = [2; 2; 2; 2; 4; 3]%nat.
Proof. reflexivity. Qed.
Example cex_scopes : Circ.scopes Qc nat cex = [[0]; [1]; [0]; [0; 1]; [0; 1]; [0; 1; 0; 1]]%nat.
Proof. reflexivity. Qed.

Lemma cex_ok : Circ.ok Qc 0 nat cex.
Proof.
  change cex with (((((([] ++ [n0]) ++ [n1]) ++ [n2]) ++ [n3]) ++ [n4]) ++ [n5]).
  repeat apply Circ.ok_snoc; try apply Circ.ok_nil; try apply ok_rows_inp.
  - (* Hadamard *) simpl. split; [discriminate|]. split; [intros j [<-|[<-|[]]]; lia|].
    split; [intros j [<-|[<-|[]]]; reflexivity|].
    split; [|split; [|exact I]]; [|intros t []]. intros t [<-|[]] u [<-|[]] [E|[]]. discriminate.
  - (* Kronecker *) simpl. split; [discriminate|]. split; [intros j [<-|[<-|[]]]; lia|].
    split; [|split; [|exact I]]; [|intros t []]. intros t [<-|[]] u [<-|[]] [E|[]]. discriminate.
  - (* sum: smooth *) simpl. split; [discriminate|]. split; [intros j [<-|[<-|[]]]; lia|].
    intros j [<-|[<-|[]]] u; simpl; tauto.
Qed.

Lemma Zx_nodup : NoDup Zx.
Proof. repeat constructor; simpl; intuition discriminate. Qed.

Lemma qc_ne0 (x : Qc) : Qeq_bool (this x) 0 = false -> x <> 0.
Proof. intros H E. rewrite E in H. discriminate. Qed.

Lemma cex_inputs i : In (NInQ i) cex -> norm_inp Qc 0 1 Qcplus Qcmult Qcminus Qcdiv exq nat (fun d => d) domx Zx i.
Proof.
  intros [E|[E|[E|[E|[E|[E|[]]]]]]]; try discriminate; injection E as <-.
  - apply ni_softmax; [simpl; auto|]. intros th [<-|[<-|[]]]; (split; [simpl; lia | apply qc_ne0; vm_compute; reflexivity]).
  - apply ni_binomial; [simpl; auto | reflexivity].
  - apply ni_probs; [simpl; auto|]. intros w [<-|[<-|[]]]; (split; [simpl; lia | apply Qc_is_canon; vm_compute; reflexivity]).
Qed.

Lemma cex_sums W ins : In (NSumQ W ins) cex -> forall w, In w W ->
  unit_row Qc 0 1 Qcplus Qcdiv exq w /\ length w = Integrate.sumu (fun j => nth j (Circ.units Qc nat cex) 0%nat) ins.
Proof.
  intros [E|[E|[E|[E|[E|[E|[]]]]]]]; try discriminate. injection E as <- <-.
  intros w [<-|[<-|[<-|[]]]]; (split; [|reflexivity]).
  - apply ur_softmax. apply qc_ne0. vm_compute. reflexivity.
  - apply ur_sum. apply Qc_is_canon. vm_compute. reflexivity.
  - apply (ur_mixing Qc 0 1 Qcplus Qcdiv exq 3 1 [q 1 3; q 2 3]); [lia|]. apply ur_sum. apply Qc_is_canon. vm_compute. reflexivity.
Qed.

(* every hypothesis of the combined corollary is satisfied: every unit of every node of the
   integrated circuit is one ... *)
Example cex_normalised y o : (o < 6)%nat ->
  nth o (evalQ (integrateQ Zx cex) y) [] = Normalised.ones Qc 1 (nth o [2; 2; 2; 2; 4; 3]%nat 0%nat).
Proof.
  intros Ho.
  apply (normalised_partition_discrete Qc 0 1 Qcplus Qcmult Qcminus Qcopp Qcdiv Qcinv Qcft exq nat
           (fun s => s) (fun d => d) (fun s => eq_refl) domx Zx cex Zx_nodup cex_ok cex_inputs cex_sums y o Ho).
Qed.
(* ... the partition function of the three output units is one ... *)
Example cex_partition y k : (k < 3)%nat ->
  Base.IntL Qc nat fIntQ [0; 1]%nat (fun y' => nth k (nth 5 (evalQ cex y') []) 0) y = 1.
Proof.
  intros Hk.
  apply (partition_function_one Qc 0 1 Qcplus Qcmult Qcminus Qcopp Qcdiv Qcinv Qcft exq nat
           (fun s => s) (fun d => d) (fun s => eq_refl) domx Zx cex Zx_nodup cex_ok cex_inputs cex_sums y 5%nat k);
    [simpl; lia | exact Hk].
Qed.
(* ... and the same numbers by brute-force evaluation (2 * 4 = 8 joint states) *)
Example cex_computed :
  map (map this) (evalQ (integrateQ Zx cex) (fun _ => 0%nat))
  = [[1; 1]; [1; 1]; [1; 1]; [1; 1]; [1; 1; 1; 1]; [1; 1; 1]]%Q.
Proof. vm_compute. reflexivity. Qed.
(* the un-integrated circuit is not constant: the theorem is about a genuine distribution *)
Example cex_value : map this (nth 5 (evalQ cex (fun v => match v with O => 1 | _ => 2 end)%nat) [])
  = [1267 # 17496; 9 # 128; 4 # 135]%Q.
Proof. vm_compute. reflexivity. Qed.
(* why [NoDup Z] is assumed: [zs_of Z scope] keeps the multiplicities of Z, so a variable listed
   twice is summed out twice and a normalised unit integrates to the number of states *)
Example duplicate_Z :
  map this (Base.IntV Qc 0 nat fIntQ (Integrate.zs_of [0; 0]%nat [0%nat])
              (Circ.ifun Qc nat (cat_probsQ 0%nat [[q 1 2; q 1 2]])) 1 (fun _ => 0%nat)) = [2 # 1]%Q.
Proof. vm_compute. reflexivity. Qed.
End ExampleQ.

(* ====================================================================== *)
(* E. the executable model: [Exec.in_eval] of a Binomial layer and the    *)
(*    discrete integral [Link.dInt] are instances of the above            *)
(* ====================================================================== *)
From CK Require Scalar Exec Link.

Module ExecLink.
Import Scalar.
Notation cofZ := Exec.cofZ.
Notation cidx := Exec.cidx.
Notation enc := (fun d : nat => Exec.cofZ (Z.of_nat d)).

(* the discrete integral of Link.v is the finite-sum functional of this file, with states
   encoded as the scalars 0, 1, 2, ... and decoded by [Exec.cidx] *)
Lemma dInt_is_fInt dom v f : Link.dInt dom v f = fInt C c0 cadd C enc dom v f.
Proof. reflexivity. Qed.
Lemma cidx_enc s : cidx (enc s) = s.
Proof. apply Link.cidx_cofZ. Qed.

Lemma binom_choose n : forall k, Exec.binom n k = Z.of_nat (choose n k).
Proof.
  induction n as [|n IH]; intros [|k]; cbn [Exec.binom choose]; try reflexivity.
  rewrite !IH, Nat2Z.inj_add. reflexivity.
Qed.
Lemma cofZ_S m : cofZ (Z.of_nat (S m)) = cadd c1 (cofZ (Z.of_nat m)).
Proof.
  unfold Exec.cofZ, cre, cadd, c1. cbn [fst snd]. f_equal.
  unfold Qcplus. apply Q2Qc_eq_iff. cbn [this Q2Qc]. rewrite !Qred_correct.
  unfold Qeq, Qplus. cbn [Qnum Qden]. rewrite Nat2Z.inj_succ. lia.
Qed.
Lemma cofZ_nmul m x : cmul (cofZ (Z.of_nat m)) x = nmul C c0 cadd m x.
Proof.
  induction m as [|m IH].
  - cbn [nmul]. change (cofZ (Z.of_nat 0)) with c0. apply (SRmul_0_l C_semi_ring).
  - rewrite cofZ_S. cbn [nmul]. rewrite <- IH.
    rewrite (SRdistr_l C_semi_ring), (SRmul_1_l C_semi_ring). reflexivity.
Qed.
Lemma cpow_rpow x n : Exec.cpow x n = rpow C c1 cmul x n.
Proof. induction n as [|n IH]; [reflexivity|]. cbn [Exec.cpow rpow]. rewrite IH. reflexivity. Qed.

(* the value computed by [Exec.in_eval (LBin v K n _ p)] for a unit with success probability q *)
Definition exec_bin (n : nat) (q : C) (x : nat) : C :=
  cmul (cofZ (Exec.binom n x)) (cmul (Exec.cpow q x) (Exec.cpow (csub c1 q) (n - x))).
Lemma exec_bin_bterm n q x : exec_bin n q x = bterm C c0 c1 cadd cmul n q (csub c1 q) x.
Proof. unfold exec_bin, bterm. rewrite binom_choose, cofZ_nmul, !cpow_rpow. reflexivity. Qed.

(* summed over the states 0 .. n of its variable it is one, whatever q is (in particular for
   q = sigmoid(logit)); this is what [Exec.norm_input (LBin ...)] relies on *)
Theorem exec_binomial_normalised dom v n q : dom v = S n ->
  Link.dInt dom v (fun d => exec_bin n q (cidx d)) = c1.
Proof.
  intros Hd. rewrite dInt_is_fInt. unfold fInt. rewrite Hd.
  rewrite (tsum_ext C c0 cadd _ (bterm C c0 c1 cadd cmul n q (csub c1 q))).
  - apply (binomial_pmf_sum C c0 c1 cadd cmul csub copp C_ring).
  - intros k _. rewrite cidx_enc. apply exec_bin_bterm.
Qed.

(* the combined corollary, read in the vocabulary of Link.v (semantic circuits over C integrated
   with [Link.dInt]), for the semiring-level layers (explicit probabilities, tables, Binomial) *)
Theorem normalised_partition_dInt dom Z (c : Circ.circuit C C) : NoDup Z -> Circ.ok C c0 C c ->
  (forall i, In (Circ.NIn C C i) c -> norm_inp0 C c0 c1 cadd cmul C cidx dom Z i) ->
  (forall W ins, In (Circ.NSum C C W ins) c -> forall w, In w W ->
     unit_row0 C c0 c1 cadd w /\ length w = Integrate.sumu (fun j => nth j (Circ.units C C c) 0%nat) ins) ->
  forall y o, (o < length c)%nat ->
  nth o (Circ.eval C c0 cadd cmul C (Integrate.integrate C c0 C (Link.dInt dom) Z c) y) []
  = Normalised.ones C c1 (nth o (Circ.units C C c) 0%nat).
Proof. apply (normalised_partition_discrete0 C c0 c1 cadd cmul C_semi_ring C enc cidx cidx_enc dom). Qed.
End ExecLink.

(* ====================================================================== *)
Check binomial_theorem.            Print Assumptions binomial_theorem.
Check binomial_sum_one.            Print Assumptions binomial_sum_one.
Check binomial_pmf_sum.            Print Assumptions binomial_pmf_sum.
Check fInt_ext.                    Print Assumptions fInt_ext.
Check fInt_add.                    Print Assumptions fInt_add.
Check fInt_scal.                   Print Assumptions fInt_scal.
Check IntV_rows_inp.               Print Assumptions IntV_rows_inp.
Check norm_rows_inp_iff.           Print Assumptions norm_rows_inp_iff.
Check cat_probs_integral.          Print Assumptions cat_probs_integral.
Check cat_probs_norm_iff.          Print Assumptions cat_probs_norm_iff.
Check cat_logits_integral.         Print Assumptions cat_logits_integral.
Check cat_logits_integral_unit.    Print Assumptions cat_logits_integral_unit.
Check cat_logits_norm_iff.         Print Assumptions cat_logits_norm_iff.
Check bin_inp2_integral.           Print Assumptions bin_inp2_integral.
Check bin_inp2_norm.               Print Assumptions bin_inp2_norm.
Check bin_inp_integral.            Print Assumptions bin_inp_integral.
Check bin_inp_norm.                Print Assumptions bin_inp_norm.
Check bin_inp_states_sum.          Print Assumptions bin_inp_states_sum.
Check bin_logits_norm.             Print Assumptions bin_logits_norm.
Check vsum_ex_ne0.                 Print Assumptions vsum_ex_ne0.
Check cat_softmax_integral.        Print Assumptions cat_softmax_integral.
Check cat_softmax_norm.            Print Assumptions cat_softmax_norm.
Check cat_softmax_states_sum.      Print Assumptions cat_softmax_states_sum.
Check unit_row_sum.                Print Assumptions unit_row_sum.
Check norm_inp_node.               Print Assumptions norm_inp_node.
Check norm_inp_ok.                 Print Assumptions norm_inp_ok.
Check normalised_partition_discrete0. Print Assumptions normalised_partition_discrete0.
Check normalised_partition_discrete.  Print Assumptions normalised_partition_discrete.
Check partition_function_one.      Print Assumptions partition_function_one.
Check softmax_circuit_partition.   Print Assumptions softmax_circuit_partition.
Check ExampleZ.bin3_sum.           Print Assumptions ExampleZ.bin3_sum.
Check ExampleQ.bin3_sum.           Print Assumptions ExampleQ.bin3_sum.
Check ExampleQ.cex_normalised.     Print Assumptions ExampleQ.cex_normalised.
Check ExampleQ.cex_partition.      Print Assumptions ExampleQ.cex_partition.
Check ExampleQ.cex_computed.       Print Assumptions ExampleQ.cex_computed.
Check ExecLink.exec_binomial_normalised. Print Assumptions ExecLink.exec_binomial_normalised.
Check ExecLink.normalised_partition_dInt. Print Assumptions ExecLink.normalised_partition_dInt.
