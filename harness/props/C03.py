"""C03 — integrate returns exactly the marginal / partition function."""
import itertools

import numpy as np
import traceback
import torch

import cirkit.symbolic.functional as SF
from cirkit.symbolic.circuit import StructuralPropertyError
from cirkit.utils.scope import Scope

import evalc
import export
import gen
from cases import CaseSet, rng_for, pick_semiring, close, all_assignments

PID = "C03"
DISC = ["emb", "cat_probs", "cat_logits", "cat_softmax"]


def grid():
    return np.linspace(-40.0, 40.0, 3201)


def oracle(sc, ci, Z, doms, ys, sem, fold, opt, update_rng=None):
    """compiled integrate(sc,Z) vs brute-force sum / quadrature of compiled sc. Returns (ok, detail).
    With update_rng: the operand's learnable tensors are first moved in place (the relation must follow)."""
    ctx = evalc.make_ctx(sem, fold, opt)
    cci = ctx.compile(ci)
    csc = ctx.get_compiled_circuit(sc)
    own = {p.data_ptr() for p in csc.parameters()}
    extra = [tuple(p.shape) for p in cci.parameters() if p.requires_grad and p.data_ptr() not in own]
    if extra:
        return False, {"new_learnable_tensors": extra, "note": "the compiled integral owns learnable tensors that are not the operand's"}
    if update_rng is not None:
        import torch
        from props.C02 import prob_leaves, tensor_leaves
        state = ctx._compiler.state
        keep = set()
        frozen = prob_leaves([sc])
        for p_ in tensor_leaves([sc]):
            if id(p_) in frozen and state.has_compiled_parameter(p_):
                keep.add(state.retrieve_compiled_parameter(p_)[0]._ptensor.data_ptr())
        with torch.no_grad():
            seen = set(keep)
            for p in csc.parameters():
                if p.requires_grad and p.data_ptr() not in seen:
                    seen.add(p.data_ptr())
                    p.add_(torch.tensor(gen.dy(update_rng, 1, 3, 16), dtype=p.dtype))
    w = evalc.width_of(sc)
    got = evalc.evaluate(cci, ci, ys, sem, width=w)
    dz = [v for v in Z if doms[v][0] == "disc"]
    cz = [v for v in Z if doms[v][0] != "disc"]
    if len(cz) > 2:
        return None, "too many continuous variables"
    nout = len(sc.outputs)
    exp = np.zeros(got.shape, dtype=complex if np.iscomplexobj(got) else float)
    for o in range(nout):
        so = sc.layer_scope(sc.outputs[o])._set
        dzo = [v for v in dz if v in so]
        czo = [v for v in cz if v in so]
        zas = all_assignments(doms, dzo)
        for b_, y in enumerate(ys):
            tot = 0.0
            if not czo:
                pts = [{**y, **z} for z in zas]
                vals = evalc.evaluate(csc, sc, pts, sem, width=w)
                tot = vals.sum(axis=0)[o]
            else:
                g = grid()
                h = g[1] - g[0]
                for z in zas:
                    if len(czo) == 1:
                        pts = [{**y, **z, czo[0]: t} for t in g]
                        vals = evalc.evaluate(csc, sc, pts, sem, width=w)
                        tot = tot + vals.sum(axis=0)[o] * h
                    else:
                        g2 = g[::8]
                        h2 = g2[1] - g2[0]
                        pts = [{**y, **z, czo[0]: a_, czo[1]: c_} for a_ in g2 for c_ in g2]
                        vals = evalc.evaluate(csc, sc, pts, sem, width=w)
                        tot = tot + vals.sum(axis=0)[o] * h2 * h2
            exp[b_, o] = tot
    tol = 1e-7 if not cz else 1e-5
    ok = close(got, exp, rtol=tol, atol=tol * 0.01 if not cz else 1e-7)
    return ok, {"observed": got.tolist(), "expected": exp.tolist()}


def one_case(rep, cs, seed, i, replaying=False):
    rng = rng_for(seed, PID, i)
    cont = rng.random() < 0.25
    monotone = rng.random() < 0.5
    cplx = (not monotone) and (not cont) and rng.random() < 0.2
    kinds = (["gau", "gau", "emb", "cat_logits"] if cont else DISC)
    if cplx:
        kinds = ["emb"]
    o = gen.random_opts(rng, kinds=kinds, monotone=monotone, cplx=cplx)
    if cont:
        o["nvars"] = min(o["nvars"], 3)
    sc, g = gen.gen_circuit(rng, **o)
    scope = sorted(sc.scope._set)
    k = rng.randint(1, len(scope))
    Z = sorted(rng.sample(scope, k))
    if rng.random() < 0.3:
        Z = scope
    sem = pick_semiring(rng, monotone, cplx)
    fold, opt = rng.choice(evalc.FLAGS)
    desc = {"i": i, "seed": seed, "Z": Z, "sem": sem, "fold": fold, "opt": opt, **g.desc}
    rep.count("semiring:" + sem)
    rep.count(f"flags:{int(fold)}{int(opt)}")
    rep.count("cont" if cont else "discrete")
    rep.count("Z=scope" if Z == scope else "Z<scope")
    for kd in set(g.desc["kinds"]):
        rep.count("kind:" + kd)
    ci = SF.integrate(sc, Scope(Z))
    rest = [v for v in scope if v not in Z]
    ys = gen.sample_inputs(rng, g.doms, rest, 3, nonneg=(sem == 'lse-sum'))
    # ---- oracle on the implementation ----
    try:
        ok, detail = oracle(sc, ci, Z, g.doms, ys, sem, fold, opt)
    except Exception as e:  # an exception where a value is promised
        ok, detail = False, {"exception": repr(e)[:300], "traceback": traceback.format_exc()[-1500:]}
    sig = "integrate-wrong-value"
    if isinstance(detail, dict) and "exception" in detail:
        sig = "integrate-compile-exception:" + detail["exception"].split("(")[0]
    if ok is False:
        rep.violation(sig, "compiled integrate(c, Z) differs from the brute-force sum/integral of compiled c",
                      {"case": desc, "inputs": ys, **detail})
    elif i % 3 == 0:
        # the same relation after the operand's parameters moved in place (the integral reads the operand's tensors)
        try:
            ok2, detail2 = oracle(sc, ci, Z, g.doms, ys, sem, fold, opt, update_rng=rng)
        except Exception as e:
            ok2, detail2 = False, {"exception": repr(e)[:300], "traceback": traceback.format_exc()[-1500:]}
        rep.count("after-update")
        if ok2 is False:
            rep.violation("integrate-stale-after-update", "after an in-place update of the operand's parameters compiled integrate(c, Z) no longer equals the sum/integral of compiled c",
                          {"case": desc, "inputs": ys, **detail2})
    # nested integration = union
    nested_term = "1"
    ci12 = None
    if len(Z) >= 2:
        Z1 = Z[: len(Z) // 2]
        Z2 = Z[len(Z) // 2:]
        ci12 = SF.integrate(SF.integrate(sc, Scope(Z1)), Scope(Z2))
    # ---- correspondence in Coq ----
    ex = export.Exporter()
    try:
        tc = ex.circuit(sc)
        tci = ex.circuit(ci)
        tci12 = ex.circuit(ci12) if ci12 is not None else None
    except export.ExportError as e:
        rep.violation("export-error", f"exporter cannot represent the implementation's result: {e}", {"case": desc}, found_input=False)
        return
    ctx = evalc.make_ctx(sem, fold, opt)
    try:
        cci = ctx.compile(ci)
        tvals = evalc.evaluate(cci, ci, ys, sem, width=evalc.width_of(sc))
        tv = export.ex_vals(tvals)
    except Exception:
        tv = None
    zs = "[" + "; ".join(f"({v}, {g.doms[v][1]})" for v in Z if g.doms[v][0] == "disc") + "]"
    alldisc = all(g.doms[v][0] == "disc" for v in Z)
    tys = export.ex_asgs(ys)
    Zt = export.ex_nats(Z)
    parts = [
        f"res_code (integrate_m {Zt} c)",
        f"eq_den_res (integrate_m {Zt} c) ci ys",
        (f"bf_integrate_check c ci {zs} ys" if alldisc else "2"),
        (f"den_vs ci ys {tv}" if tv is not None else "2"),
        "learn_subset ci [c]",
        f"scope_check ci {export.ex_nats(rest)}",
        (f"eq_den ci12 ci ys" if tci12 is not None else "1"),
    ]
    term = (f"let c := {tc} in let ci := {tci} in let ys := {tys} in "
            + (f"let ci12 := {tci12} in " if tci12 is not None else "")
            + "[" + "; ".join(parts) + "]")

    def interp(res, desc=desc, ys=ys):
        rc, eqm, bf, dv, ls, scs, nest = res
        rep.count(f"coq:eq_model={eqm}")
        rep.count(f"coq:bf={bf}")
        if rc != 0:
            rep.violation("integrate-model-refuses", "the model refuses an operand the implementation integrates",
                          {"case": desc, "model_error": rc}, found_input=False)
        if eqm == 0:
            rep.violation("integrate-corr", "integrate_m (model) and cirkit integrate disagree on the denoted function",
                          {"case": desc, "inputs": ys}, found_input=False)
        if bf == 0:
            rep.violation("integrate-wrong-value", "the circuit returned by integrate differs from the sum over Z (exact model evaluation)",
                          {"case": desc, "inputs": ys})
        if dv == 0:
            rep.violation("integrate-compiled-vs-den", "compiled integrate(c,Z) differs from the model's denotation of it",
                          {"case": desc, "inputs": ys})
        if ls == 0:
            rep.violation("integrate-new-learnable", "integrate introduced a learnable tensor not owned by the operand", {"case": desc})
        if scs == 0:
            rep.violation("integrate-scope", "scope of integrate(c,Z) is not scope(c) minus Z", {"case": desc})
        if nest == 0:
            rep.violation("integrate-nested", "integrating Z1 then Z2 differs from integrating the union", {"case": desc, "inputs": ys})

    cs.add(desc, term, interp, nontrivial=g.desc["sums"] >= 1 and g.desc["prods"] >= 1)


def refusal_cases(rep, seed, n):
    """non-smooth / non-decomposable operands and invalid scopes must be refused"""
    import refusals
    refusals.check_integrate(rep, seed, n)


def run(rep, tier, seed, replay=None):
    n = 70 if tier == "quick" else 700
    cs = CaseSet(rep, PID)
    if replay is not None:
        c = replay["replay"].get("case", {})
        one_case(rep, cs, c.get("seed", seed), c.get("i", 0), replaying=True)
        cs.run()
        return
    for i in range(n):
        one_case(rep, cs, seed, i)
    cs.run(shard=max(5, 70 // 14))  # shard size of the quick tier: thorough runs use more files, not longer ones
