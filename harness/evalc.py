"""Compile symbolic circuits with the real implementation and evaluate them (linear-space values)."""
import numpy as np
import torch

from cirkit.pipeline import PipelineContext

SEMIRINGS = ("sum-product", "lse-sum", "complex-lse-sum")
FLAGS = [(False, False), (True, False), (False, True), (True, True)]


def make_ctx(semiring="sum-product", fold=False, optimize=False):
    return PipelineContext(backend="torch", semiring=semiring, fold=fold, optimize=optimize)


def to_batch(ys, width, dtype=torch.float64):
    """list of dict var->value -> tensor (B, width) indexed by variable id"""
    x = torch.zeros((len(ys), max(width, 1)), dtype=dtype)
    for b, y in enumerate(ys):
        for v, val in y.items():
            x[b, v] = val
    return x


def width_of(sc):
    vs = list(sc.scope._set)
    return (max(vs) + 1) if vs else 0


def to_linear(out, semiring):
    """compiled output tensor -> numpy array in linear space (complex if needed)"""
    out = out.detach()
    if semiring == "sum-product":
        a = out.numpy()
    else:
        a = torch.exp(out).numpy()
    if np.iscomplexobj(a) and np.all(np.abs(a.imag) <= 1e-12 * (1 + np.abs(a.real))):
        pass
    return a


def evaluate(cc, sc, ys, semiring, width=None, int_inputs=None):
    """evaluate compiled circuit cc of symbolic sc on assignments ys; returns array (B, outputs, units)"""
    if not sc.scope._set:
        out = cc()
        a = to_linear(out, semiring)
        return np.broadcast_to(a[None], (max(len(ys), 1), *a.shape))
    w = width if width is not None else width_of(sc)
    x = to_batch(ys, w)
    if int_inputs:
        x = x.long()
    out = cc(x)
    return to_linear(out, semiring)


def compile_eval(sc, ys, semiring="sum-product", fold=False, optimize=False, ctx=None, int_inputs=False):
    ctx = ctx or make_ctx(semiring, fold, optimize)
    cc = ctx.compile(sc)
    return evaluate(cc, sc, ys, semiring, int_inputs=int_inputs), cc, ctx
