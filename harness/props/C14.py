"""C14 — every parameter operator computes its documented tensor function."""
import itertools
import traceback

import numpy as np
import torch

from cirkit.backend.torch import compiler as TC
from cirkit.symbolic import parameters as P
from cirkit.symbolic.initializers import ConstantTensorInitializer
from cirkit.symbolic.dtypes import DataType

import evalc
import export
import gen
from cases import CaseSet, rng_for, close

PID = "C14"

UNARY = ["exp", "log", "square", "softplus", "sigmoid", "scaled_sigmoid", "clamp", "conj",
         "reduce_sum", "reduce_prod", "reduce_lse", "softmax", "log_softmax", "index", "mixing", "polydiff"]
BINARY = ["sum", "hadamard", "kronecker", "outer_prod", "outer_sum", "gauss_std", "polyprod"]
NARY = ["gauss_mean", "gauss_logpart"]


def leaf(rng, shape, positive=False, cplx=False):
    lo, hi = (1, 8) if positive else (-8, 8)
    v = gen.dy_array(rng, shape, lo, hi, 4, cplx=cplx)
    return P.TensorParameter(*shape, initializer=ConstantTensorInitializer(v), dtype=DataType.COMPLEX if cplx else DataType.REAL)


def rand_shape(rng, rank=None):
    rank = rank or rng.choice([1, 2, 2, 3])
    return tuple(rng.choice([1, 2, 3]) for _ in range(rank))


def axis_arg(rng, axis, rank):
    """the same axis given positively or negatively"""
    return axis if rng.random() < 0.5 else axis - rank


def build(rng, op, sub=None, depth=0):
    """returns a Parameter computing `op` on fresh leaves (or on `sub`, a Parameter, as first input)"""
    def inp(shape, **kw):
        if sub is not None and tuple(sub.shape) == tuple(shape):
            return sub
        return P.Parameter.from_input(leaf(rng, shape, **kw))

    if op in ("exp", "square", "softplus", "sigmoid", "scaled_sigmoid", "clamp", "conj", "log"):
        shape = tuple(sub.shape) if sub is not None else rand_shape(rng)
        cplx = op == "conj" and sub is None
        x = inp(shape, positive=(op == "log"), cplx=cplx)
        node = {"exp": P.ExpParameter, "log": P.LogParameter, "square": P.SquareParameter, "softplus": P.SoftplusParameter,
                "sigmoid": P.SigmoidParameter, "conj": P.ConjugateParameter}.get(op)
        if node is not None:
            return P.Parameter.from_unary(node(shape), x)
        if op == "scaled_sigmoid":
            return P.Parameter.from_unary(P.ScaledSigmoidParameter(shape, vmin=0.25, vmax=rng.choice([1.0, 2.5])), x)
        lo, hi = rng.choice([(-0.5, None), (None, 0.75), (-1.0, 1.0), (0.0, None), (None, 0.0), (0.0, 0.75), (-1.0, 0.0)])
        return P.Parameter.from_unary(P.ClampParameter(shape, vmin=lo, vmax=hi), x)
    if op in ("reduce_sum", "reduce_prod", "reduce_lse", "softmax", "log_softmax", "index"):
        shape = tuple(sub.shape) if sub is not None and len(sub.shape) >= 2 else rand_shape(rng, rng.choice([2, 2, 3]))
        x = inp(shape)
        ax = rng.randrange(len(shape))
        a = axis_arg(rng, ax, len(shape))
        if op == "index":
            idxs = [rng.randrange(shape[ax]) for _ in range(rng.choice([1, 2, 3]))]
            return P.Parameter.from_unary(P.IndexParameter(shape, indices=idxs, axis=a), x)
        node = {"reduce_sum": P.ReduceSumParameter, "reduce_prod": P.ReduceProductParameter, "reduce_lse": P.ReduceLSEParameter,
                "softmax": P.SoftmaxParameter, "log_softmax": P.LogSoftmaxParameter}[op]
        return P.Parameter.from_unary(node(shape, axis=a), x)
    if op == "mixing":
        shape = tuple(sub.shape) if sub is not None and len(sub.shape) == 2 else rand_shape(rng, 2)
        return P.Parameter.from_unary(P.MixingWeightParameter(shape), inp(shape))
    if op == "polydiff":
        shape = tuple(sub.shape) if sub is not None and len(sub.shape) == 2 else (rng.choice([1, 2]), rng.choice([1, 2, 3, 4]))
        return P.Parameter.from_unary(P.PolynomialDifferential(shape, order=rng.choice([1, 2, 3])), inp(shape))
    if op in ("sum", "hadamard"):
        shape = tuple(sub.shape) if sub is not None else rand_shape(rng)
        node = P.SumParameter if op == "sum" else P.HadamardParameter
        return P.Parameter.from_binary(node(shape, shape), inp(shape), P.Parameter.from_input(leaf(rng, shape)))
    if op == "kronecker":
        s1 = tuple(sub.shape) if sub is not None else rand_shape(rng)
        s2 = rand_shape(rng, len(s1))
        return P.Parameter.from_binary(P.KroneckerParameter(s1, s2), inp(s1), P.Parameter.from_input(leaf(rng, s2)))
    if op in ("outer_prod", "outer_sum"):
        s1 = tuple(sub.shape) if sub is not None else rand_shape(rng)
        ax = rng.randrange(len(s1))
        s2 = tuple(rng.choice([1, 2, 3]) if k == ax else d for k, d in enumerate(s1))
        node = P.OuterProductParameter if op == "outer_prod" else P.OuterSumParameter
        return P.Parameter.from_binary(node(s1, s2, axis=axis_arg(rng, ax, len(s1))), inp(s1), P.Parameter.from_input(leaf(rng, s2)))
    if op == "polyprod":
        s1 = tuple(sub.shape) if sub is not None and len(sub.shape) == 2 else (rng.choice([1, 2]), rng.choice([1, 2, 3]))
        s2 = (rng.choice([1, 2]), rng.choice([1, 2, 3]))
        return P.Parameter.from_binary(P.PolynomialProduct(s1, s2), inp(s1), P.Parameter.from_input(leaf(rng, s2)))
    if op == "gauss_std":
        s1, s2 = (rng.choice([1, 2, 3]),), (rng.choice([1, 2, 3]),)
        return P.Parameter.from_binary(P.GaussianProductStddev(s1, s2), P.Parameter.from_input(leaf(rng, s1, positive=True)), P.Parameter.from_input(leaf(rng, s2, positive=True)))
    if op in ("gauss_mean", "gauss_logpart"):
        s1, s2 = (rng.choice([1, 2, 3]),), (rng.choice([1, 2, 3]),)
        node = P.GaussianProductMean if op == "gauss_mean" else P.GaussianProductLogPartition
        return P.Parameter.from_nary(node(s1, s1, s2, s2), P.Parameter.from_input(leaf(rng, s1)), P.Parameter.from_input(leaf(rng, s1, positive=True)),
                                     P.Parameter.from_input(leaf(rng, s2)), P.Parameter.from_input(leaf(rng, s2, positive=True)))
    raise AssertionError(op)


def clone_with_new_values(rng, par):
    """same graph structure, fresh leaf values (for folding groups)"""
    def proc(n):
        if isinstance(n, P.TensorParameter):
            v = np.asarray(n.initializer.value)
            cplx = np.iscomplexobj(v)
            pos = bool(np.all(np.real(v) > 0))
            return leaf(rng, n.shape, positive=pos, cplx=cplx)
        import copy
        return copy.copy(n)
    return par._process_nodes(proc)


def torch_value(tp):
    tp.reset_parameters()
    return tp().detach().numpy()


def one_case(rep, cs, seed, i):
    rng = rng_for(seed, PID, i)
    ops = UNARY + BINARY + NARY
    op = ops[i % len(ops)]
    composite = rng.random() < 0.35
    try:
        par = build(rng, op)
        chain = [op]
        if composite:
            for _ in range(rng.choice([1, 2])):
                pool = [o for o in UNARY + BINARY if o not in ("log", "conj", "gauss_std")]
                if chain[0] == "conj":  # complex-valued: only operations torch defines on complex tensors
                    pool = ["square", "sum", "hadamard", "kronecker", "outer_prod", "outer_sum", "reduce_sum", "reduce_prod",
                            "index", "mixing", "polyprod", "polydiff"]
                op2 = rng.choice(pool)
                par = build(rng, op2, sub=par)
                chain.append(op2)
    except (AssertionError, ValueError) as e:
        rep.count("build-skip")
        return
    F = rng.choice([1, 1, 2, 3])
    desc = {"i": i, "seed": seed, "chain": chain, "shape": list(par.shape), "folds": F,
            "nodes": [type(n).__name__ + str(getattr(n, "axis", "")) for n in par.topological_ordering()]}
    for c in chain:
        rep.count("op:" + c)
    rep.count(f"folds:{F}")
    rep.count(f"rank:{len(par.shape)}")
    pars = [par] + [clone_with_new_values(rng, par) for _ in range(F - 1)]
    try:
        comp = TC.TorchCompiler(semiring="sum-product", fold=F > 1, optimize=False)
        tps = [comp.compile_parameter(p) for p in pars]
        if F == 1:
            vals = [torch_value(tps[0])[0]]
            nf = tps[0].num_folds
        else:
            folded = TC._fold_parameters(comp, tps)
            v = torch_value(folded)
            nf = folded.num_folds
            vals = [v[k] for k in range(v.shape[0])]
    except Exception as e:
        rep.violation("parameter-compile-exception:" + type(e).__name__ + ":" + chain[-1], "compiling / folding / evaluating a parameter graph raised",
                      {"case": desc, "exception": repr(e)[:300], "traceback": traceback.format_exc()[-1500:]})
        return
    if nf != F or len(vals) != F:
        rep.violation("parameter-folds", "wrong number of folds", {"case": desc, "observed": nf})
        return
    for k, (p, v) in enumerate(zip(pars, vals)):
        if tuple(v.shape) != tuple(p.shape):
            rep.violation("parameter-shape:" + chain[-1], "the compiled parameter does not have the declared shape",
                          {"case": desc, "fold": k, "observed": list(v.shape), "expected": list(p.shape)})
            return
    if not all(np.all(np.isfinite(v)) for v in vals):
        rep.count("non-finite-skipped")
        return
    ex = export.Exporter()
    try:
        terms = [f"pcmp {ex.param(p)} {export.ex_tensor(v)}" for p, v in zip(pars, vals)]
        terms.append(f"pshape_vs {ex.param(par)} {export.ex_nats(list(par.shape))}")
    except export.ExportError as e:
        rep.violation("export-error", str(e), {"case": desc}, found_input=False)
        return
    term = "[" + "; ".join(terms) + "]"

    def interp(res, desc=desc, vals=vals):
        sv, res = res[-1], res[:-1]
        rep.count(f"coq:pshape_vs={sv}")
        if sv == 0:
            rep.violation("parameter-shape-rule:" + desc["chain"][-1], "the shape declared by the symbolic parameter differs from the shape rule of the model "
                          "(theorem C14_shape_inference: the rule gives the shape of the evaluated tensor)", {"case": desc})
        rep.count(f"coq:pcmp={min(res)}")
        for k, r in enumerate(res):
            if r == 0:
                rep.violation("parameter-wrong-value:" + desc["chain"][-1], "a compiled parameter node does not compute its mathematical definition along the declared axis (exact model evaluation)",
                              {"case": desc, "fold": k, "observed": np.asarray(vals[k]).tolist()})
                break

    cs.add(desc, term, interp, nontrivial=True)


def optimized_case(rep, cs, seed, i):
    """parameter graphs matched by the parameter optimisation rules (log o softmax, reduce-sum o outer-product with every
    combination of axes), compiled inside constant layers under optimize / fold"""
    from cirkit.symbolic import layers as L
    from cirkit.symbolic.circuit import Circuit
    rng = rng_for(seed, PID + "opt", i)
    n = rng.choice([1, 2, 2, 3])
    layers = []
    for _ in range(n):
        kind = rng.choice(["rs_outer", "rs_outer", "logsoftmax"])
        if kind == "logsoftmax":
            rank = rng.choice([1, 2, 2, 3])
            shape = tuple(rng.choice([2, 3]) for _ in range(rank))
            ax = rng.randrange(rank)
            t = leaf(rng, shape)
            par = P.Parameter.from_unary(P.LogParameter(shape), P.Parameter.from_unary(P.SoftmaxParameter(shape, axis=axis_arg(rng, ax, rank)), t))
            while len(shape) > 1:
                ra = rng.randrange(len(shape))
                par = P.Parameter.from_unary(P.ReduceSumParameter(shape, axis=axis_arg(rng, ra, len(shape))), par)
                shape = par.shape
        else:
            rank = rng.choice([2, 2, 3])
            s1 = tuple(rng.choice([1, 2, 3]) for _ in range(rank))
            oa = rng.randrange(rank)
            s2 = tuple(rng.choice([1, 2, 3]) if k == oa else d for k, d in enumerate(s1))
            op = P.OuterProductParameter(s1, s2, axis=axis_arg(rng, oa, rank))
            par = P.Parameter.from_binary(op, P.Parameter.from_input(leaf(rng, s1)), P.Parameter.from_input(leaf(rng, s2)))
            shape = par.shape
            # reduce until a vector is left
            while len(shape) > 1:
                ra = rng.randrange(len(shape))
                par = P.Parameter.from_unary(P.ReduceSumParameter(shape, axis=axis_arg(rng, ra, len(shape))), par)
                shape = par.shape
        layers.append(L.ConstantValueLayer(par.shape[0], value=par))
    fold, opt = rng.choice([(False, True), (True, True), (True, False)])
    desc = {"i": i, "seed": seed, "family": "optimized", "fold": fold, "opt": opt,
            "nodes": [[type(nd).__name__ + str(getattr(nd, "axis", "")) for nd in l.value.topological_ordering()] for l in layers]}
    rep.count("family:optimized")
    rep.count(f"flags:{int(fold)}{int(opt)}")
    try:
        sc = Circuit(layers, {}, layers) if len({l.num_output_units for l in layers}) == 1 else Circuit(layers[:1], {}, layers[:1])
        ctx = evalc.make_ctx("sum-product", fold, opt)
        cc = ctx.compile(sc)
        out = cc().detach().numpy()      # (outputs, units)
    except Exception as e:
        rep.violation("parameter-optimize-exception:" + type(e).__name__, "compiling / evaluating a parameter graph under optimize/fold raised",
                      {"case": desc, "exception": repr(e)[:300], "traceback": traceback.format_exc()[-1500:]})
        return
    ex = export.Exporter()
    terms = [f"pcmp {ex.param(l.value)} {export.ex_tensor(out[k])}" for k, l in enumerate(sc.outputs)]
    term = "[" + "; ".join(terms) + "]"

    def interp(res, desc=desc, out=out):
        rep.count(f"coq:pcmp-opt={min(res)}")
        if min(res) == 0:
            rep.violation("parameter-optimized-wrong-value", "a parameter graph rewritten by the parameter optimisation rules does not compute its definition",
                          {"case": desc, "observed": out.tolist()})

    cs.add(desc, term, interp, nontrivial=True)


def run(rep, tier, seed, replay=None):
    n = 600 if tier == "quick" else 8000
    cs = CaseSet(rep, PID)
    if replay is not None:
        c = replay["replay"].get("case", {})
        (optimized_case if c.get("family") == "optimized" else one_case)(rep, cs, c.get("seed", seed), c.get("i", 0))
        cs.run()
        return
    for i in range(n):
        one_case(rep, cs, seed, i)
    for i in range(n // 4):
        optimized_case(rep, cs, seed, i)
    cs.run(shard=max(10, 600 // 14))  # shard size of the quick tier: thorough runs use more files, not longer ones
