(* C13 — gradients: forward-mode (dual-number) evaluation
   Property theorems only: each is closed by `exact <lemma>`; proofs live in the imported files. *)
From Coq Require Import List ZArith QArith Qcanon Ring_theory Field_theory Permutation Sorted.
Import ListNotations.
From CK Require Import Base.
From CK Require Import Circ.
From CK Require Import Hom.
Close Scope Qc_scope. Close Scope Q_scope. Close Scope Z_scope. Open Scope nat_scope.

(* dual numbers over a commutative semiring form a commutative semiring, so every theorem about circuits (denotation, folding, operators) holds for value-and-tangent evaluation *)
Theorem C13_dual_semiring :
  forall (R : Type) (rO rI : R) (radd rmul : R -> R -> R),
         semi_ring_theory rO rI radd rmul eq ->
         semi_ring_theory (d0 R rO) (d1 R rO rI) (dadd R radd) (dmul R radd rmul) eq.
Proof. exact dual_semiring. Qed.
Print Assumptions C13_dual_semiring.

(* the primal part of the dual-number evaluation is the ordinary evaluation *)
Theorem C13_dual_primal :
  forall (R : Type) (rO : R) (radd rmul : R -> R -> R) (D : Type) (c : circuit (dual R) D) (y : asg D),
         map (map fst) (eval (dual R) (d0 R rO) (dadd R radd) (dmul R radd rmul) D c y) =
         eval R rO radd rmul D (map_circuit (dual R) R D fst c) y.
Proof. exact dual_primal. Qed.
Print Assumptions C13_dual_primal.

(* a circuit whose parameters carry zero tangent has zero tangent *)
Theorem C13_constants_zero_tangent :
  forall (R : Type) (rO rI : R) (radd rmul : R -> R -> R),
         semi_ring_theory rO rI radd rmul eq ->
         forall (D : Type) (c : circuit R D) (y : asg D),
         eval (dual R) (d0 R rO) (dadd R radd) (dmul R radd rmul) D (map_circuit R (dual R) D (dconst R rO) c)
           y = map (map (dconst R rO)) (eval R rO radd rmul D c y).
Proof. exact dual_const. Qed.
Print Assumptions C13_constants_zero_tangent.

(* the tangent of a product follows the Leibniz rule *)
Theorem C13_leibniz :
  forall (R : Type) (radd rmul : R -> R -> R) (x y : dual R),
         snd (dmul R radd rmul x y) = radd (rmul (fst x) (snd y)) (rmul (snd x) (fst y)).
Proof. exact snd_dmul. Qed.
Print Assumptions C13_leibniz.

(* a polynomial evaluated at (x, 1) gives (p(x), p'(x)) with p' the formal derivative computed by the model's PolynomialDifferential *)
Theorem C13_polynomial_derivative :
  forall (R : Type) (rO rI : R) (radd rmul : R -> R -> R),
         semi_ring_theory rO rI radd rmul eq ->
         forall (p : list R) (x : R),
         horner (dual R) (d0 R rO) (dadd R radd) (dmul R radd rmul) (map (dconst R rO) p) (dvar R rI x) =
         (horner R rO radd rmul p x, horner R rO radd rmul (pdiff1 R rI radd rmul p) x).
Proof. exact horner_dual. Qed.
Print Assumptions C13_polynomial_derivative.
