"""C18 — compiler registry and pipeline context stay coherent over any call history."""
import traceback

import numpy as np
import torch

import cirkit.pipeline as PL
import cirkit.symbolic.functional as SF
from cirkit.pipeline import PipelineContext
from cirkit.symbolic.registry import OPERATOR_REGISTRY
from cirkit.utils.scope import Scope

import evalc
import gen
from cases import CaseSet, rng_for, close

PID = "C18"


class Boom(Exception):
    pass


def make_pool(rng):
    """symbolic circuits 0..n-1 with their operands (a DAG): base circuits then derived ones"""
    o = gen.random_opts(rng, kinds=["emb", "cat_logits"], monotone=True, regular=True, sd=True, nout=1)
    o["nvars"] = rng.choice([1, 2, 2])
    if o["prod"] == "any":
        o["prod"] = "had"
    o["K"] = 1
    o["max_alt"] = 2
    base, g = gen.gen_circuit(rng, **o)
    pool = [(base, [])]
    other, _ = gen.gen_circuit(rng, **dict(o, like=g))
    pool.append((other, []))
    if rng.random() < 0.6:
        # diamonds: a derived circuit whose operands are (X, Y) with Y itself derived from X, X listed first
        try:
            a = pool[rng.randrange(2)]
            ja = pool.index(a)
            sq = SF.multiply(a[0], a[0])
            pool.append((sq, [ja]))
            js = len(pool) - 1
            if rng.random() < 0.5:
                pool.append((SF.multiply(a[0], sq), sorted({ja, js})))
            else:
                inner = SF.multiply(sq, a[0])
                pool.append((inner, sorted({ja, js})))
                pool.append((SF.multiply(sq, inner), sorted({js, len(pool) - 1})))
        except Exception:
            pass
    for _ in range(rng.randint(2, 5)):
        j = rng.randrange(len(pool))
        c = pool[j][0]
        op = rng.choice(["integrate", "multiply", "conjugate", "evidence", "concatenate"])
        try:
            if op == "integrate" and c.scope._set:
                pool.append((SF.integrate(c), [j]))
            elif op == "multiply":
                k = rng.randrange(len(pool))
                big = lambda x: max([getattr(l_, "arity", 1) for l_ in x.layers] + [1]) * max(l_.num_output_units for l_ in x.layers)
                if big(c) * big(pool[k][0]) > 16 or len(c.layers) + len(pool[k][0].layers) > 60:
                    continue    # products of products of products: the sum-layer index tensors grow multiplicatively
                pool.append((SF.multiply(c, pool[k][0]), sorted({j, k})))
            elif op == "conjugate":
                pool.append((SF.conjugate(c), [j]))
            elif op == "evidence" and c.scope._set:
                v = sorted(c.scope._set)[0]
                pool.append((SF.evidence(c, {v: 0}), [j]))
            elif op == "concatenate":
                k = rng.randrange(len(pool))
                pool.append((SF.concatenate([c, pool[k][0]]), sorted({j, k})))
        except Exception:
            pass
    return pool, g


def one_case(rep, cs, seed, i):
    rng = rng_for(seed, PID, i)
    pool, g = make_pool(rng)
    nctx = rng.randint(1, 4)
    ctxs = [PipelineContext(backend="torch", semiring="sum-product", fold=rng.random() < 0.5, optimize=rng.random() < 0.5) for _ in range(nctx)]
    default_ctx = PL._PIPELINE_CONTEXT.get()
    default_reg = OPERATOR_REGISTRY.get()
    desc = {"i": i, "seed": seed, "ncircuits": len(pool), "ncontexts": nctx, "operands": [o for _, o in pool]}
    # ---- build a random well-bracketed history ----
    events = []     # for the model: ("enter", k) / ("exit", k) / ("compile", k, c)
    obs_cur = []    # implementation: active context after each enter/exit (0 = default, k+1 = ctxs[k])
    obs_new = []    # implementation: circuits newly compiled by each compile call
    compiled = {}   # (k, c) -> compiled object
    log = []
    import cirkit.backend.torch.compiler as TC
    orig = TC.TorchCompiler._compile_circuit
    which = {id(c._compiler): k for k, c in enumerate(ctxs)}
    sym_id = {id(sc): j for j, (sc, _) in enumerate(pool)}

    def spy(self, sc):
        log.append((which.get(id(self), -1), sym_id.get(id(sc), -1)))
        return orig(self, sc)

    TC.TorchCompiler._compile_circuit = spy
    stack = []
    try:
        def cur_id():
            cur = PL._PIPELINE_CONTEXT.get()
            if cur is default_ctx:
                return 0
            for k, c in enumerate(ctxs):
                if cur is c:
                    return k + 1
            return 998

        def check_registry():
            want = default_reg if not stack else ctxs[stack[-1]]._op_registry
            if OPERATOR_REGISTRY.get() is not want:
                rep.violation("operator-registry-not-restored", "the active operator registry is not the one of the active context", {"case": desc, "events": list(events)})

        def body(depth):
            n = rng.randint(1, 4)
            for _ in range(n):
                act = rng.choice(["compile", "compile", "query", "nest", "nest-exc", "op"])
                if act in ("nest", "nest-exc") and depth < 3:
                    free = [k for k in range(nctx) if k not in stack]
                    if not free:
                        continue
                    k = rng.choice(free)
                    try:
                        with ctxs[k]:
                            stack.append(k)
                            events.append(("enter", k + 1))
                            obs_cur.append(cur_id())
                            check_registry()
                            body(depth + 1)
                            if act == "nest-exc":
                                raise Boom()
                    except Boom:
                        pass
                    finally:
                        if stack and stack[-1] == k:
                            stack.pop()
                    events.append(("exit", k + 1))
                    obs_cur.append(cur_id())
                    check_registry()
                elif stack:
                    k = stack[-1]
                    c = rng.randrange(len(pool))
                    sc = pool[c][0]
                    if act in ("compile", "op"):
                        before = len(log)
                        cc = PL.compile(sc)  # uses the active context
                        newly = sorted(c_ for kk, c_ in log[before:] if kk == k and c_ >= 0)
                        events.append(("compile", k + 1, c))
                        obs_new.append(newly)
                        if act == "op" and pool[c][1] and sc.operation is not None and len(pool[c][1]) == 1 \
                                and sc.operation.operator.name in ("INTEGRATION", "CONJUGATION"):
                            # operator function applied to the compiled operand = compilation of the symbolic operator result
                            f = PL.integrate if sc.operation.operator.name == "INTEGRATION" else PL.conjugate
                            operand = ctxs[k].get_compiled_circuit(pool[pool[c][1][0]][0])
                            mark = len(log)
                            cc2 = f(operand)
                            del log[mark:]   # the fresh symbolic circuit created by the operator function is outside the pool
                            x = evalc.to_batch([{v: 0 for v in sc.scope._set}], max(evalc.width_of(sc), 1))
                            a_ = cc2(x) if sc.scope._set else cc2()
                            b_ = cc(x) if sc.scope._set else cc()
                            if not close(a_.detach().numpy(), b_.detach().numpy()):
                                rep.violation("pipeline-op-differs", "an operator function applied to a compiled circuit differs from compiling the symbolic operator result",
                                              {"case": desc, "circuit": c})
                        if (k, c) in compiled and compiled[(k, c)] is not cc:
                            rep.violation("compile-not-memoised", "compiling the same symbolic circuit again returned a different compiled object", {"case": desc, "circuit": c})
                        compiled[(k, c)] = cc
                        # operands compiled before and only once
                        seen_pos = {}
                        for pos, (kk, c_) in enumerate(log):
                            if kk == k and c_ >= 0:
                                if c_ in seen_pos:
                                    rep.violation("compiled-twice", "a symbolic circuit was compiled twice in one context", {"case": desc, "circuit": c_})
                                seen_pos[c_] = pos
                        for c_, pos in seen_pos.items():
                            for o in pool[c_][1]:
                                if o not in seen_pos or seen_pos[o] > pos:
                                    rep.violation("operand-after-derived", "an operand was not compiled before the circuit derived from it", {"case": desc, "circuit": c_, "operand": o})
                    else:
                        ctx = ctxs[k]
                        isc = ctx.is_compiled(sc)
                        if isc != ((k, c) in compiled or any(kk == k and c_ == c for kk, c_ in log)):
                            rep.violation("is-compiled-wrong", "is_compiled disagrees with the compilation history", {"case": desc, "circuit": c})
                        if isc:
                            cc = ctx.get_compiled_circuit(sc)
                            if not ctx.has_symbolic(cc) or ctx.get_symbolic_circuit(cc) is not sc:
                                rep.violation("bimap-broken", "the symbolic/compiled association cannot be queried back", {"case": desc, "circuit": c})
                            if (k, c) in compiled and compiled[(k, c)] is not cc:
                                rep.violation("bimap-broken", "get_compiled_circuit returned another object than compile", {"case": desc, "circuit": c})
                            for k2 in range(nctx):
                                if k2 != k and ctxs[k2].has_symbolic(cc):
                                    rep.violation("bimap-leak", "a compiled circuit is known to another context", {"case": desc, "circuit": c})
        body(0)
        if cur_id() != 0 or OPERATOR_REGISTRY.get() is not default_reg:
            rep.violation("context-not-restored", "after leaving all contexts the default context / registry is not active", {"case": desc, "events": events})
        # operator METHODS of a context that is not the active one (no `with` block, or another context is active):
        # the result belongs to the context the method was called on
        mark_ = len(log)
        k = rng.randrange(nctx)
        cands_ = [j for j, (sc_, ops_) in enumerate(pool) if not ops_ and sc_.scope._set]
        if cands_:
            sc_ = pool[rng.choice(cands_)][0]
            other = [j for j in range(nctx) if j != k]

            def run_method():
                cc_ = ctxs[k].compile(sc_)
                res_ = ctxs[k].integrate(cc_)
                if not ctxs[k].has_symbolic(res_):
                    rep.violation("operator-method-wrong-context", "integrate called on a context that is not the active one did not register its result in that context",
                                  {"case": desc, "context": k})
                for j in other:
                    if ctxs[j].has_symbolic(res_):
                        rep.violation("operator-method-wrong-context", "integrate called on one context registered its result in another (active) context", {"case": desc, "context": k, "other": j})
                if default_ctx.has_symbolic(res_):
                    rep.violation("operator-method-wrong-context", "integrate called on a context registered its result in the default context", {"case": desc, "context": k})
                want_ = ctxs[k].compile(ctxs[k].get_symbolic_circuit(res_)) if ctxs[k].has_symbolic(res_) else None
                if want_ is not None and want_ is not res_:
                    rep.violation("operator-method-not-memoised", "the circuit returned by the integrate method is not the compiled circuit of its symbolic result", {"case": desc})
            if other and rng.random() < 0.5:
                with ctxs[other[0]]:
                    run_method()
            else:
                run_method()
            rep.count("operator-method-outside-active-context")
        del log[mark_:]
    except Exception as e:
        rep.violation("history-exception:" + type(e).__name__, "a valid call history raised",
                      {"case": desc, "events": events, "exception": repr(e)[:300], "traceback": traceback.format_exc()[-1500:]})
        return
    finally:
        TC.TorchCompiler._compile_circuit = orig
        # unwind any context left active by a failure
    rep.count(f"events:{min(len(events) // 5 * 5, 40)}+")
    rep.count(f"contexts:{nctx}")
    # ---- the model run on the same history ----
    ctx_ev = "[" + "; ".join(("Enter %d" % e[1]) if e[0] == "enter" else ("Exit %d" % e[1]) for e in events if e[0] != "compile") + "]"
    comp_ev = "[" + "; ".join("(%d, %d)" % (e[1], e[2]) for e in events if e[0] == "compile") + "]"
    tbl = "[" + "; ".join("[" + "; ".join(str(o) for o in ops) + "]" for _, ops in pool) + "]"
    regs0 = "[" + "; ".join("[]" for _ in range(nctx + 1)) + "]"
    term = f"trace st0 {ctx_ev} ++ [777] ++ concat (map (fun l => l ++ [888]) (reg_trace {tbl} {regs0} {comp_ev}))"
    impl = list(obs_cur) + [777]
    for l in obs_new:
        impl += list(l) + [888]

    def interp(res, desc=desc, impl=impl, events=events):
        # the model lists newly compiled circuits in compilation order; compare as sorted groups
        def groups(x):
            cut = x.index(777)
            head, tail = x[:cut], x[cut + 1:]
            gs, curg = [], []
            for v in tail:
                if v == 888:
                    gs.append(sorted(curg))
                    curg = []
                else:
                    curg.append(v)
            return head, gs
        try:
            ok = groups(res) == groups(impl)
        except ValueError:
            ok = False
        if not ok:
            rep.violation("history-corr", "the context / registry state machines of the model and cirkit disagree on a call history",
                          {"case": desc, "events": events, "model": res, "implementation": impl}, found_input=False)

    cs.add(desc, term, interp, nontrivial=len(events) >= 2)


def run(rep, tier, seed, replay=None):
    n = 150 if tier == "quick" else 3000
    cs = CaseSet(rep, PID)
    if replay is not None:
        c = replay["replay"].get("case", {})
        one_case(rep, cs, c.get("seed", seed), c.get("i", 0))
        cs.run()
        return
    for i in range(n):
        one_case(rep, cs, seed, i)
    cs.run(shard=max(10, 150 // 14))  # shard size of the quick tier: thorough runs use more files, not longer ones
