"""C15 — sampling draws from the distribution the circuit encodes."""
import itertools
import math
import traceback

import numpy as np
import torch

from cirkit.backend.torch.queries import SamplingQuery
from cirkit.symbolic import parameters as P

import evalc
import export
import gen
from cases import CaseSet, rng_for, close

PID = "C15"


def chi2_quantile(df, p=1e-9):
    """upper quantile of chi-square by Wilson-Hilferty (conservative: +20%)"""
    z = 5.9978  # standard normal upper 1e-9 quantile
    df = max(df, 1)
    q = df * (1 - 2 / (9 * df) + z * math.sqrt(2 / (9 * df))) ** 3
    return 1.2 * q + 10


class _G:
    pass


def shared_circuit(rng):
    """a normalised mixture of two products over the same variables that SHARE input layers and split the scope differently:
    root = Sum([in_0 * ... * in_{n-1},  in_a * Sum(prod of the others)])  (smooth, decomposable, not structured-decomposable)"""
    from cirkit.symbolic import layers as L
    from cirkit.symbolic import parameters as P
    from cirkit.symbolic.circuit import Circuit
    from cirkit.utils.scope import Scope
    n = rng.choice([2, 3, 3, 4])
    N = rng.choice([2, 3])
    vs = gen.VAR_SETS[rng.choice(["dense", "dense", "sparse"])](n)
    g = _G()
    g.doms = {v: ("disc", N) for v in vs}

    def sm(shape):
        return P.Parameter.from_unary(P.SoftmaxParameter(shape, axis=1), gen.tensor(gen.dy_array(rng, shape, -4, 4)))

    ins = {v: L.CategoricalLayer(Scope([v]), 1, num_categories=N, probs=sm((1, N))) for v in vs}
    layers = list(ins.values())
    conn = {}
    order = list(vs)
    if rng.random() < 0.5:
        rng.shuffle(order)
    p1 = L.HadamardLayer(1, arity=n)
    conn[p1] = [ins[v] for v in order]
    layers.append(p1)
    a = rng.choice(vs)
    rest = [v for v in vs if v != a]
    if len(rest) >= 2:
        pin = L.HadamardLayer(1, arity=len(rest))
        conn[pin] = [ins[v] for v in rest]
        sin = L.SumLayer(1, 1, arity=1, weight=sm((1, 1)))
        conn[sin] = [pin]
        layers += [pin, sin]
        other = sin
    else:
        other = ins[rest[0]]
    p2 = L.HadamardLayer(1, arity=2)
    conn[p2] = [ins[a], other] if rng.random() < 0.5 else [other, ins[a]]
    root = L.SumLayer(1, 1, arity=2, weight=sm((1, 2)))
    conn[root] = [p1, p2]
    layers += [p2, root]
    g.desc = {"family": "shared-inputs", "vars": list(vs), "kinds": ["cat_softmax"] * n, "sums": 2, "prods": 3, "arity": [2], "K": 1, "nout": 1}
    return Circuit(layers, conn, [root]), g


def one_case(rep, cs, seed, i, nsamples):
    rng = rng_for(seed, PID, i)
    torch.manual_seed(seed * 104729 + i)
    o = gen.random_opts(rng, kinds=["cat_softmax", "cat_probs", "bin"] if i % 3 == 1 else ["cat_softmax", "cat_probs"], monotone=True, normalized=True, nout=1, K=1)
    o["nvars"] = rng.choice([1, 2, 2, 3])
    o["varset"] = rng.choice(["dense", "dense", "sparse", "shift"])
    if i % 4 == 3:
        sc, g = shared_circuit(rng)
        o["prod"] = "had"
    else:
        sc, g = gen.gen_circuit(rng, **o)
    fold, opt = rng.choice(evalc.FLAGS)
    if i % 4 == 3 and rng.random() < 0.6:
        fold = True
    desc = {"i": i, "seed": seed, "fold": fold, "opt": opt, "nsamples": nsamples, **g.desc}
    rep.count(f"flags:{int(fold)}{int(opt)}")
    rep.count("varset:" + o["varset"])
    for a in g.desc["arity"]:
        rep.count(f"sum-arity:{a}")
    rep.count("prod:" + o["prod"])
    scope = sorted(sc.scope._set)
    sem = "sum-product"
    try:
        ctx = evalc.make_ctx(sem, fold, opt)
        cc = ctx.compile(sc)
        try:
            samples, _mix = SamplingQuery(cc)(num_samples=nsamples)
        except TypeError as e:
            # documented refusals: fused layers without a sampling rule
            if "not implemented" in str(e) or "not supported" in str(e):
                rep.count("refused:" + str(e)[:40])
                rep.case(desc, False)
                return
            raise
        samples = samples.detach().numpy()
    except Exception as e:
        rep.violation("sampling-exception:" + type(e).__name__, "the sampling query raised on a normalised monotonic circuit",
                      {"case": desc, "exception": repr(e)[:300], "traceback": traceback.format_exc()[-1500:]})
        return
    if samples.shape[0] != nsamples or samples.ndim != 2:
        rep.violation("sample-shape", "the sampling query did not return one row per requested sample", {"case": desc, "observed": list(samples.shape)})
        return
    # complete assignments: one column per variable (indexed like the circuit's inputs, by variable id)
    w = evalc.width_of(sc)
    if samples.shape[1] == w:
        cols = {v: samples[:, v] for v in scope}
    elif samples.shape[1] == len(scope):
        cols = {v: samples[:, k] for k, v in enumerate(scope)}
    else:
        rep.violation("sample-width", "the samples do not have one column per variable", {"case": desc, "observed": list(samples.shape)})
        return
    for v in scope:
        if np.any(cols[v] < 0) or np.any(cols[v] >= g.doms[v][1]) or np.any(cols[v] != np.round(cols[v])):
            rep.violation("sample-column", "a variable's column holds values outside the domain of that variable's input layer", {"case": desc, "variable": v})
            return
    xs = [dict(zip(scope, c)) for c in itertools.product(*[range(g.doms[v][1]) for v in scope])]
    key = {tuple(x[v] for v in scope): k for k, x in enumerate(xs)}
    counts = [0] * len(xs)
    for r in range(nsamples):
        counts[key[tuple(int(cols[v][r]) for v in scope)]] += 1
    probs = evalc.evaluate(cc, sc, xs, sem, width=w)[:, 0, 0].real
    # every returned sample has positive probability
    for k, c_ in enumerate(counts):
        if c_ > 0 and probs[k] <= 0:
            rep.violation("sample-zero-probability", "a returned sample has probability zero under the circuit", {"case": desc, "sample": xs[k]})
            return
    exp = nsamples * probs
    stat = float(np.sum((np.array(counts) - exp) ** 2 / np.maximum(exp, 1e-300) * (exp > 0)))
    thr = chi2_quantile(len(xs) - 1)
    if stat > thr:
        rep.violation("sample-distribution", "empirical frequencies are incompatible with the circuit's probabilities (chi-square, p < 1e-9)",
                      {"case": desc, "statistic": stat, "threshold": thr, "counts": counts, "expected": exp.tolist()})
    # ---- the model decides the same test with its exact probabilities ----
    ex = export.Exporter()
    try:
        tc = ex.circuit(sc)
    except export.ExportError as e:
        rep.violation("export-error", str(e), {"case": desc}, found_input=False)
        return
    cz = "[" + "; ".join(f"{c_}%Z" for c_ in counts) + "]"
    term = f"[chi2_check {tc} {export.ex_asgs(xs)} {cz} {nsamples}%Z {export.ex_scalar(float(thr))}]"

    def interp(res, desc=desc, counts=counts):
        (r,) = res
        rep.count(f"coq:chi2={r}")
        if r == 0:
            rep.violation("sample-distribution-model", "the samples are incompatible with the probabilities the model assigns (chi-square p < 1e-9, or a zero-probability sample)",
                          {"case": desc, "counts": counts})
        if r == 3:
            rep.violation("not-normalised-model", "the model's probabilities of a normalised circuit do not sum to one", {"case": desc}, found_input=False)

    cs.add(desc, term, interp, nontrivial=g.desc["sums"] >= 1 and g.desc["prods"] >= 1)


def gauss_case(rep, seed, i, nsamples):
    """continuous inputs: a normalised mixture of products of Gaussians; first and second (cross) moments of the samples
    against the closed-form moments of the mixture (z-tests at 6 sigma)"""
    from cirkit.symbolic import layers as L
    from cirkit.symbolic import parameters as P
    from cirkit.symbolic.circuit import Circuit
    from cirkit.utils.scope import Scope
    rng = rng_for(seed, PID + "gau", i)
    torch.manual_seed(seed * 7919 + i)
    n = rng.choice([2, 2, 3])
    K = rng.choice([1, 2, 3])
    vs = gen.VAR_SETS[rng.choice(["dense", "sparse"])](n)
    mus = {v: gen.dy_array(rng, (K,), -8, 8, 2) for v in vs}
    sds = {v: gen.dy_array(rng, (K,), 1, 6, 4) for v in vs}
    ins = [L.GaussianLayer(Scope([v]), K, mean=P.Parameter.from_input(gen.tensor(mus[v])), stddev=P.Parameter.from_input(gen.tensor(sds[v]))) for v in vs]
    pl = L.KroneckerLayer(K, arity=n) if (rng.random() < 0.3 and n >= 2) else L.HadamardLayer(K, arity=n)
    kron = isinstance(pl, L.KroneckerLayer)
    Kp = K ** n if kron else K
    theta = gen.dy_array(rng, (1, Kp), -4, 4)
    sl = L.SumLayer(Kp, 1, arity=1, weight=P.Parameter.from_unary(P.SoftmaxParameter((1, Kp), axis=1), gen.tensor(theta)))
    sc = Circuit(ins + [pl, sl], {pl: ins, sl: [pl]}, [sl])
    fold, opt = rng.choice(evalc.FLAGS)
    desc = {"i": i, "seed": seed, "family": "gaussian-mixture", "fold": fold, "opt": opt, "nsamples": nsamples, "vars": list(vs), "K": K, "kron": kron}
    rep.count("family:gaussian-mixture")
    rep.case(desc, True)
    w = np.exp(theta[0] - theta[0].max())
    w = w / w.sum()
    # component k of the product layer uses unit idx[v][k] of variable v
    if kron:
        comps = list(itertools.product(range(K), repeat=n))
    else:
        comps = [(k,) * n for k in range(K)]
    try:
        cc = evalc.make_ctx("sum-product", fold, opt).compile(sc)
        samples, _ = SamplingQuery(cc)(num_samples=nsamples)
        samples = samples.detach().numpy()
    except TypeError as e:
        if "not implemented" in str(e) or "not supported" in str(e):
            rep.count("refused:" + str(e)[:40])
            return
        rep.violation("sampling-exception:TypeError", "the sampling query raised on a normalised monotonic circuit", {"case": desc, "exception": repr(e)[:300]})
        return
    except Exception as e:
        rep.violation("sampling-exception:" + type(e).__name__, "the sampling query raised on a normalised monotonic circuit",
                      {"case": desc, "exception": repr(e)[:300], "traceback": traceback.format_exc()[-1500:]})
        return
    W = evalc.width_of(sc)
    if samples.shape != (nsamples, W) and samples.shape != (nsamples, n):
        rep.violation("sample-width", "the samples do not have one column per variable", {"case": desc, "observed": list(samples.shape)})
        return
    col = (lambda v: samples[:, v]) if samples.shape[1] == W else (lambda v: samples[:, list(vs).index(v)])
    for a_, v in enumerate(vs):
        m1 = sum(w[c] * mus[v][comp[a_]] for c, comp in enumerate(comps))
        m2 = sum(w[c] * (sds[v][comp[a_]] ** 2 + mus[v][comp[a_]] ** 2) for c, comp in enumerate(comps))
        var = max(m2 - m1 ** 2, 1e-12)
        x = col(v)
        z = abs(x.mean() - m1) / np.sqrt(var / nsamples)
        if z > 6.5:
            rep.violation("sample-moment", "the sample mean of a continuous variable is incompatible with the mean of the circuit's marginal (z > 6.5)",
                          {"case": desc, "variable": v, "sample_mean": float(x.mean()), "expected": float(m1), "z": float(z)})
            return
        # second moment (fourth moment of a Gaussian mixture bounds its variance)
        m4 = sum(w[c] * (mus[v][comp[a_]] ** 4 + 6 * mus[v][comp[a_]] ** 2 * sds[v][comp[a_]] ** 2 + 3 * sds[v][comp[a_]] ** 4) for c, comp in enumerate(comps))
        z2 = abs((x ** 2).mean() - m2) / np.sqrt(max(m4 - m2 ** 2, 1e-12) / nsamples)
        if z2 > 6.5:
            rep.violation("sample-moment", "the sample second moment of a continuous variable is incompatible with the circuit's marginal (z > 6.5)",
                          {"case": desc, "variable": v, "observed": float((x ** 2).mean()), "expected": float(m2), "z": float(z2)})
            return
    for (a_, u), (b_, v) in itertools.combinations(enumerate(vs), 2):
        e_uv = sum(w[c] * mus[u][comp[a_]] * mus[v][comp[b_]] for c, comp in enumerate(comps))
        e2 = sum(w[c] * (sds[u][comp[a_]] ** 2 + mus[u][comp[a_]] ** 2) * (sds[v][comp[b_]] ** 2 + mus[v][comp[b_]] ** 2) for c, comp in enumerate(comps))
        xy = col(u) * col(v)
        z = abs(xy.mean() - e_uv) / np.sqrt(max(e2 - e_uv ** 2, 1e-12) / nsamples)
        if z > 6.5:
            rep.violation("sample-cross-moment", "the sample cross moment of two variables is incompatible with the joint the circuit encodes (z > 6.5): the variables of one sample do not come from the same mixture component",
                          {"case": desc, "variables": [u, v], "observed": float(xy.mean()), "expected": float(e_uv), "z": float(z)})
            return


def run(rep, tier, seed, replay=None):
    n = 60 if tier == "quick" else 500
    ns = 4000 if tier == "quick" else 100000
    cs = CaseSet(rep, PID)
    if replay is not None:
        c = replay["replay"].get("case", {})
        if c.get("family") == "gaussian-mixture":
            gauss_case(rep, c.get("seed", seed), c.get("i", 0), c.get("nsamples", ns))
        else:
            one_case(rep, cs, c.get("seed", seed), c.get("i", 0), c.get("nsamples", ns))
        cs.run()
        return
    for i in range(n):
        one_case(rep, cs, seed, i, ns)
    for i in range(max(12, n // 5)):
        gauss_case(rep, seed, i, ns)
    cs.run(shard=max(4, 60 // 14))  # shard size of the quick tier: thorough runs use more files, not longer ones
