(* Pexpr.v — deep embedding of cirkit.symbolic.parameters and its evaluation [peval]
   on concrete tensors over the executable scalar structure C. Definitions only. *)
From Coq Require Import ZArith QArith Qcanon List Bool Arith Lia.
Import ListNotations.
From CK Require Import Base Scalar Tensor.
Close Scope Qc_scope. Close Scope Q_scope. Close Scope Z_scope.
Open Scope nat_scope.

Notation tn := (tensor C).
Notation cvec := (list C).
Definition vdot := dot C c0 cadd cmul.
Definition vhad := had C cmul.
Definition vkron := kron C cmul.
Definition vscale := scale C cmul.
Definition vconv := conv C c0 cadd cmul.
Definition vpdiff1 := pdiff1 C c1 cadd cmul.
Definition vhorner := horner C c0 cadd cmul.

Inductive unop :=
| UIndex (axis : nat) (idxs : list nat)
| UExp | ULog | USquare | USoftplus | USigmoid
| UScaledSigmoid (vmin vmax : Qc)
| UClamp (vmin vmax : option Qc)
| UConj
| URSum (axis : nat) | URProd (axis : nat) | URLSE (axis : nat)
| USoftmax (axis : nat) | ULogSoftmax (axis : nat)
| UMixing
| UPolyDiff (order : nat).

Inductive binop :=
| BSum | BHad | BKron
| BOuterProd (axis : nat) | BOuterSum (axis : nat)
| BGStd | BPolyProd.

Inductive pexpr :=
| PTen (id : nat) (learn : bool) (t : tn)
| PUn (op : unop) (e : pexpr)
| PBin (op : binop) (e1 e2 : pexpr)
| PGMean (m1 s1 m2 s2 : pexpr)
| PGLogPart (m1 s1 m2 s2 : pexpr).

Definition obind {X Y} (o : option X) (f : X -> option Y) : option Y :=
  match o with Some x => f x | None => None end.
Notation "'do' x <- o ; k" := (obind o (fun x => k)) (at level 200, x name, o at level 100, k at level 200).

Definition chalf : C := cre (Q2Qc (1 # 2)).
Definition csigmoid (a : C) : option C :=
  do e <- cexp (copp a); Some (cround (cinv (cadd c1 e))).
Definition csoftplus (a : C) : option C :=
  do e <- cexp a; clog (cadd c1 e).
Definition cclamp (lo hi : option Qc) (a : C) : option C :=
  if is_real a then
    let x := fst a in
    let x1 := match lo with Some l => if Qle_bool x l then l else x | None => x end in
    let x2 := match hi with Some h => if Qle_bool h x1 then h else x1 | None => x1 end in
    Some (cre x2)
  else None.

Fixpoint iter {X} (n : nat) (f : X -> X) (x : X) : X := match n with O => x | Datatypes.S k => iter k f (f x) end.

Definition polydiff_row (order : nat) (row : cvec) : cvec :=
  if Nat.leb (length row) order then [c0] else iter order vpdiff1 row.

Definition eval_unop (op : unop) (t : tn) : option tn :=
  match op with
  | UIndex ax idxs => Some (tindex c0 ax idxs t)
  | UExp => tmapo cexp t
  | ULog => tmapo clog t
  | USquare => Some (tmap (fun x => cmul x x) t)
  | USoftplus => tmapo csoftplus t
  | USigmoid => tmapo csigmoid t
  | UScaledSigmoid vmin vmax =>
      tmapo (fun x => do s <- csigmoid x; Some (cadd (cmul s (cre (vmax - vmin)%Qc)) (cre vmin))) t
  | UClamp lo hi => tmapo (cclamp lo hi) t
  | UConj => Some (tmap cconj t)
  | URSum ax => Some (treduce cadd c0 ax t)
  | URProd ax => Some (treduce cmul c1 ax t)
  | URLSE ax => do e <- tmapo cexp t; tmapo clog (treduce cadd c0 ax e)
  | USoftmax ax => do e <- tmapo cexp t; Some (tmap cround (tbroadcast cdiv ax e (treduce cadd c0 ax e)))
  | ULogSoftmax ax =>
      do e <- tmapo cexp t; do ls <- tmapo clog (treduce cadd c0 ax e); Some (tbroadcast csub ax t ls)
  | UMixing => Some (of_mat (mixing c0 (tmat c0 t)))
  | UPolyDiff order => Some (of_mat (map (polydiff_row order) (tmat c0 t)))
  end.

(* all pairs (i, j), i-major *)
Definition pairs {X Y Z} (f : X -> Y -> Z) (l : list X) (m : list Y) : list Z :=
  flat_map (fun x => map (f x) m) l.

Definition eval_binop (op : binop) (a b : tn) : option tn :=
  match op with
  | BSum => Some (tzip cadd a b)
  | BHad => Some (tzip cmul a b)
  | BKron => Some (tkron cmul a b)
  | BOuterProd ax => Some (touter cmul ax a b)
  | BOuterSum ax => Some (touter cadd ax a b)
  | BGStd =>
      do l <- omap (fun v => csqrt v)
                (pairs (fun s1 s2 => cround (cinv (cadd (cinv (cmul s1 s1)) (cinv (cmul s2 s2))))) (tvec c0 a) (tvec c0 b));
      Some (of_vec l)
  | BPolyProd => Some (of_mat (pairs vconv (tmat c0 a) (tmat c0 b)))
  end.

Definition gmean (m1 s1 m2 s2 : cvec) : cvec :=
  pairs (fun p1 p2 => let '(mu1, sd1) := p1 in let '(mu2, sd2) := p2 in
           let v1 := cmul sd1 sd1 in let v2 := cmul sd2 sd2 in
           cround (cdiv (cadd (cmul mu1 v2) (cmul mu2 v1)) (cadd v1 v2)))
        (combine m1 s1) (combine m2 s2).
Definition glogpart (m1 s1 m2 s2 : cvec) : option cvec :=
  omap (fun x => x)
    (pairs (fun p1 p2 => let '(mu1, sd1) := p1 in let '(mu2, sd2) := p2 in
           let v12 := cadd (cmul sd1 sd1) (cmul sd2 sd2) in
           let d := csub mu1 mu2 in
           do lv <- clog v12; do l2p <- clog (cre qtwopi);
           Some (cmul (copp chalf) (cadd (cadd l2p lv) (cround (cdiv (cmul d d) v12)))))
        (combine m1 s1) (combine m2 s2)).

Fixpoint peval (e : pexpr) : option tn :=
  match e with
  | PTen _ _ t => Some t
  | PUn op e1 => do t <- peval e1; eval_unop op t
  | PBin op e1 e2 => do a <- peval e1; do b <- peval e2; eval_binop op a b
  | PGMean m1 s1 m2 s2 =>
      do a <- peval m1; do b <- peval s1; do c <- peval m2; do d <- peval s2;
      Some (of_vec (gmean (tvec c0 a) (tvec c0 b) (tvec c0 c) (tvec c0 d)))
  | PGLogPart m1 s1 m2 s2 =>
      do a <- peval m1; do b <- peval s1; do c <- peval m2; do d <- peval s2;
      do l <- glogpart (tvec c0 a) (tvec c0 b) (tvec c0 c) (tvec c0 d); Some (of_vec l)
  end.

(* leaves *)
Fixpoint pleaves (e : pexpr) : list (nat * bool) :=
  match e with
  | PTen id l _ => [(id, l)]
  | PUn _ e1 => pleaves e1
  | PBin _ e1 e2 => pleaves e1 ++ pleaves e2
  | PGMean a b c d | PGLogPart a b c d => pleaves a ++ pleaves b ++ pleaves c ++ pleaves d
  end.
Definition plearnable (e : pexpr) : list nat := map fst (filter snd (pleaves e)).
