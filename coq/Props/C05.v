(* C05 — differentiate returns the partial derivatives in variable order
   Property theorems only: each is closed by `exact <lemma>`; proofs live in the imported files. *)
From Coq Require Import List ZArith QArith Qcanon Ring_theory Field_theory Permutation Sorted.
Import ListNotations.
From CK Require Import Base.
From CK Require Import Circ.
From CK Require Import Differentiate.
Close Scope Qc_scope. Close Scope Q_scope. Close Scope Z_scope. Open Scope nat_scope.

(* for any abstract (iterated) partial-derivative operator Dv satisfying linearity and the independent-factor rules, block (i,t) of the differentiated circuit evaluates to Dv (nth t vars) of node i and the copy evaluates to node i *)
Theorem C05_differentiate :
  forall (R : Type) (rO rI : R) (radd rmul : R -> R -> R),
         semi_ring_theory rO rI radd rmul eq ->
         forall (D : Type) (Dv : nat -> (asg D -> R) -> asg D -> R),
         (forall (v : nat) (f g : asg D -> R),
          (forall y : asg D, f y = g y) -> forall y : asg D, Dv v f y = Dv v g y) ->
         (forall (v : nat) (f g : asg D -> R) (y : asg D),
          Dv v (fun y0 : asg D => radd (f y0) (g y0)) y = radd (Dv v f y) (Dv v g y)) ->
         (forall (v : nat) (c : R) (f : asg D -> R) (y : asg D),
          Dv v (fun y0 : asg D => rmul c (f y0)) y = rmul c (Dv v f y)) ->
         (forall (v : nat) (S : list nat) (g f : asg D -> R),
          dep_on R D S g ->
          ~ In v S -> forall y : asg D, Dv v (fun y0 : asg D => rmul (g y0) (f y0)) y = rmul (g y) (Dv v f y)) ->
         (forall (v : nat) (S : list nat) (f : asg D -> R),
          dep_on R D S f -> ~ In v S -> forall y : asg D, Dv v f y = rO) ->
         forall (vars : list nat) (c : circuit R D),
         ok R rO D c ->
         forall (y : asg D) (i : nat),
         i < length c ->
         nth (cidx (length vars) i) (eval R rO radd rmul D (differentiate R rO D Dv vars c) y) [] =
         nth i (eval R rO radd rmul D c y) [] /\
         (forall t : nat,
          t < length vars ->
          forall k : nat,
          nth k (nth (didx (length vars) i t) (eval R rO radd rmul D (differentiate R rO D Dv vars c) y) []) rO =
          Dv (nth t vars 0) (fun y' : asg D => nth k (nth i (eval R rO radd rmul D c y') []) rO) y).
Proof. exact differentiate_correct. Qed.
Print Assumptions C05_differentiate.

(* the outputs attached to an output node are the derivatives w.r.t. exactly the variables of its scope, in the order of vars (increasing when vars is sorted), followed by the node itself *)
Theorem C05_outputs_sorted :
  forall (R : Type) (rO rI : R) (radd rmul : R -> R -> R),
         semi_ring_theory rO rI radd rmul eq ->
         forall (D : Type) (Dv : nat -> (asg D -> R) -> asg D -> R),
         (forall (v : nat) (f g : asg D -> R),
          (forall y : asg D, f y = g y) -> forall y : asg D, Dv v f y = Dv v g y) ->
         (forall (v : nat) (f g : asg D -> R) (y : asg D),
          Dv v (fun y0 : asg D => radd (f y0) (g y0)) y = radd (Dv v f y) (Dv v g y)) ->
         (forall (v : nat) (c : R) (f : asg D -> R) (y : asg D),
          Dv v (fun y0 : asg D => rmul c (f y0)) y = rmul c (Dv v f y)) ->
         (forall (v : nat) (S : list nat) (g f : asg D -> R),
          dep_on R D S g ->
          ~ In v S -> forall y : asg D, Dv v (fun y0 : asg D => rmul (g y0) (f y0)) y = rmul (g y) (Dv v f y)) ->
         (forall (v : nat) (S : list nat) (f : asg D -> R),
          dep_on R D S f -> ~ In v S -> forall y : asg D, Dv v f y = rO) ->
         forall (vars : list nat) (c : circuit R D) (o : nat),
         ok R rO D c ->
         o < length c ->
         (forall (y : asg D) (k : nat),
          map
            (fun idx : nat => nth k (nth idx (eval R rO radd rmul D (differentiate R rO D Dv vars c) y) []) rO)
            (outs R D vars c o) =
          map (fun v : nat => Dv v (fun y' : asg D => nth k (nth o (eval R rO radd rmul D c y') []) rO) y)
            (dvars vars (nth o (scopes R D c) [])) ++ [nth k (nth o (eval R rO radd rmul D c y) []) rO]) /\
         (forall v : nat,
          In v (dvars vars (nth o (scopes R D c) [])) <-> In v vars /\ In v (nth o (scopes R D c) [])) /\
         (StronglySorted lt vars -> StronglySorted lt (dvars vars (nth o (scopes R D c) []))).
Proof. exact differentiate_outputs. Qed.
Print Assumptions C05_outputs_sorted.
