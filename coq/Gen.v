From Coq Require Import List Lia Bool Arith Wf_nat.
Import ListNotations.

(* generic "append one value per node" evaluation with locality *)
Section Gen.
Variables (N X : Type) (dN : N) (dX : X).
Variable step : N -> list X -> X.
Variable deps : N -> list nat.
Hypothesis step_local : forall n acc acc',
  (forall j, In j (deps n) -> nth j acc dX = nth j acc' dX) -> step n acc = step n acc'.
Fixpoint gen_from (ns : list N) (acc : list X) : list X :=
  match ns with [] => acc | n :: r => gen_from r (acc ++ [step n acc]) end.
Definition gen_eval ns := gen_from ns [].
Definition gwf (ns : list N) := forall i, i < length ns -> forall j, In j (deps (nth i ns dN)) -> j < i.

Lemma gen_from_app a b acc : gen_from (a ++ b) acc = gen_from b (gen_from a acc).
Proof. revert acc; induction a as [|m a IH]; intros acc; simpl; [reflexivity | apply IH]. Qed.
Lemma length_gen_from ms acc : length (gen_from ms acc) = length acc + length ms.
Proof. revert acc; induction ms as [|m ms IH]; intros acc; simpl; [lia|]. rewrite IH, app_length; simpl; lia. Qed.
Lemma length_gen_eval ns : length (gen_eval ns) = length ns.
Proof. unfold gen_eval. rewrite length_gen_from. reflexivity. Qed.
Lemma gen_from_prefix ms acc i : i < length acc -> nth i (gen_from ms acc) dX = nth i acc dX.
Proof. revert acc; induction ms as [|m ms IH]; intros acc H; simpl; [reflexivity|].
  rewrite IH by (rewrite app_length; simpl; lia). apply app_nth1; exact H. Qed.
Lemma skipn_nth_cons {A} (l : list A) d i : i < length l -> skipn i l = nth i l d :: skipn (S i) l.
Proof. revert i; induction l as [|a l IH]; intros i H; simpl in *; [lia|]. destruct i; [reflexivity|]. apply IH; lia. Qed.

Lemma gen_spec ns : gwf ns -> forall i, i < length ns ->
  nth i (gen_eval ns) dX = step (nth i ns dN) (gen_eval ns).
Proof.
  intros Hwf i Hi.
  assert (Hs : ns = firstn i ns ++ nth i ns dN :: skipn (S i) ns).
  { rewrite <- (firstn_skipn i ns) at 1. f_equal. apply skipn_nth_cons; exact Hi. }
  set (pre := firstn i ns) in *. set (m := nth i ns dN) in *. set (suf := skipn (S i) ns) in *.
  assert (Hlp : length pre = i) by (unfold pre; rewrite firstn_length; lia).
  unfold gen_eval. rewrite Hs. rewrite !gen_from_app. simpl.
  set (acc := gen_from pre []).
  assert (Hla : length acc = i) by (unfold acc; rewrite length_gen_from; simpl; lia).
  rewrite gen_from_prefix by (rewrite app_length; simpl; lia).
  rewrite app_nth2 by lia. rewrite Hla, Nat.sub_diag. simpl.
  apply step_local. intros j Hj. specialize (Hwf i Hi j Hj). fold m in Hwf.
  rewrite gen_from_prefix by (rewrite app_length; simpl; lia).
  rewrite app_nth1 by lia. reflexivity.
Qed.
End Gen.
