From Coq Require Import List.
Theorem C16_placeholder : True. Proof. exact I. Qed.
Print Assumptions C16_placeholder.
