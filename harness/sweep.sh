#!/bin/sh
# multi-seed sweep of every quick check (for `vp run --with-repo`): usage sweep.sh <seeds...>
cd "$(dirname "$0")/.." || exit 2
(cd coq && coq_makefile -f _CoqProject -o Makefile >/dev/null && make -j8 >/dev/null 2>&1)
./check selftest || exit 1
for s in "$@"; do
  for p in C01 C02 C03 C04 C05 C06 C07 C08 C09 C10 C11 C12 C13 C14 C15 C16 C17 C18 C19 C20; do
    VERIF_SEED=$s ./check $p --tier "${VERIF_TIER:-quick}" 2>&1 | grep -E "^\[C|VIOLATION|KNOWN" 
  done
done
