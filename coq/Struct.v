(* Struct.v — the boolean structural predicates of Exec.v agree with their set-theoretic
   definitions; invariance under permutation of a layer's input list. *)
From Coq Require Import ZArith QArith Qcanon List Bool Arith Lia Sorted Permutation.
Import ListNotations.
From CK Require Import Base Scalar Tensor Pexpr Exec.
Close Scope Qc_scope. Close Scope Q_scope. Close Scope Z_scope. Open Scope nat_scope.

(* ================================================================== *)
(* 0. Generic ordered insertion (shared by [sinsert] and [ssort_insert]) *)
(* ================================================================== *)
Section GenIns.
Variable X : Type.
Variables (ltb eqb : X -> X -> bool).
Hypothesis eqb_spec : forall a b, eqb a b = true <-> a = b.
Hypothesis ltb_irrefl : forall a, ltb a a = false.
Hypothesis ltb_trans : forall a b c, ltb a b = true -> ltb b c = true -> ltb a c = true.
Hypothesis ltb_total : forall a b, ltb a b = false -> eqb a b = false -> ltb b a = true.

Fixpoint gins (v : X) (s : list X) : list X :=
  match s with
  | [] => [v]
  | x :: r => if ltb v x then v :: s else if eqb v x then s else x :: gins v r
  end.
Definition gsorted : list X -> Prop := StronglySorted (fun a b => ltb a b = true).
Definition gcanon (s : list X) : list X := fold_right gins [] s.

Lemma gins_In v x s : In v (gins x s) <-> v = x \/ In v s.
Proof.
  induction s as [|y r IH]; simpl.
  - intuition.
  - destruct (ltb x y) eqn:Hlt; simpl.
    + intuition.
    + destruct (eqb x y) eqn:Heq; simpl.
      * apply eqb_spec in Heq. subst. intuition.
      * rewrite IH. intuition.
Qed.

Lemma gins_sorted x s : gsorted s -> gsorted (gins x s).
Proof.
  unfold gsorted. intros Hs. induction Hs as [|y r Hr IH Hall]; simpl.
  - constructor; constructor.
  - destruct (ltb x y) eqn:Hlt.
    + constructor. { constructor; assumption. }
      constructor. { assumption. }
      rewrite Forall_forall in *. intros z Hz. eapply ltb_trans; eauto.
    + destruct (eqb x y) eqn:Heq.
      * constructor; assumption.
      * constructor. { assumption. }
        rewrite Forall_forall in *. intros z Hz. apply gins_In in Hz.
        destruct Hz as [Hz|Hz]; [subst; apply ltb_total; auto | auto].
Qed.

Lemma gsorted_ext a : forall b, gsorted a -> gsorted b ->
  (forall v, In v a <-> In v b) -> a = b.
Proof.
  unfold gsorted.
  induction a as [|x a IH]; intros b Ha Hb Hab.
  - destruct b as [|y b]; auto. exfalso. apply (Hab y). left; reflexivity.
  - destruct b as [|y b]. { exfalso. apply (Hab x). left; reflexivity. }
    inversion Ha as [|? ? Ha' Hxa]; subst. inversion Hb as [|? ? Hb' Hyb]; subst.
    rewrite Forall_forall in Hxa, Hyb.
    assert (Hxy : x = y).
    { destruct (proj1 (Hab x) (or_introl eq_refl)) as [H1|H1]; auto.
      destruct (proj2 (Hab y) (or_introl eq_refl)) as [H2|H2]; auto.
      apply Hyb in H1. apply Hxa in H2.
      pose proof (ltb_trans _ _ _ H1 H2) as H3. rewrite ltb_irrefl in H3. discriminate. }
    subst y. f_equal. apply IH; auto.
    intros v; split; intros Hv.
    + destruct (proj1 (Hab v) (or_intror Hv)) as [H1|H1]; auto.
      subst v. apply Hxa in Hv. rewrite ltb_irrefl in Hv. discriminate.
    + destruct (proj2 (Hab v) (or_intror Hv)) as [H1|H1]; auto.
      subst v. apply Hyb in Hv. rewrite ltb_irrefl in Hv. discriminate.
Qed.

Lemma gcanon_sorted s : gsorted (gcanon s).
Proof. induction s; simpl. constructor. apply gins_sorted; assumption. Qed.

Lemma gcanon_In v s : In v (gcanon s) <-> In v s.
Proof. induction s; simpl. tauto. rewrite gins_In, IHs. intuition. Qed.

Lemma gcanon_ext s t : (forall v, In v s <-> In v t) -> gcanon s = gcanon t.
Proof.
  intros H. apply gsorted_ext; try apply gcanon_sorted.
  intros v. rewrite !gcanon_In. apply H.
Qed.

Lemma gcanon_inj s t : gcanon s = gcanon t -> forall v, In v s <-> In v t.
Proof. intros H v. rewrite <- (gcanon_In v s), <- (gcanon_In v t), H. tauto. Qed.

Lemma gcanon_perm s t : Permutation s t -> gcanon s = gcanon t.
Proof.
  intros H. apply gcanon_ext. intros v; split; apply Permutation_in; auto using Permutation_sym.
Qed.

Lemma gsorted_NoDup s : gsorted s -> NoDup s.
Proof.
  unfold gsorted. induction 1 as [|x r Hr IH Hall]; constructor; auto.
  intros Hin. rewrite Forall_forall in Hall. apply Hall in Hin.
  rewrite ltb_irrefl in Hin. discriminate.
Qed.
End GenIns.

Lemma StronglySorted_impl {A} (R R' : A -> A -> Prop) l :
  (forall a b, R a b -> R' a b) -> StronglySorted R l -> StronglySorted R' l.
Proof.
  intros H. induction 1; constructor; auto.
  eapply Forall_impl; [|eassumption]. auto.
Qed.

(* ================================================================== *)
(* 1. The set layer                                                     *)
(* ================================================================== *)
Definition sorted : list nat -> Prop := StronglySorted lt.
Definition set_eq (a b : list nat) : Prop := forall v, In v a <-> In v b.

Lemma sorted_gsorted s : sorted s <-> gsorted nat Nat.ltb s.
Proof.
  split; apply StronglySorted_impl; intros a b; apply Nat.ltb_lt.
Qed.

Lemma sinsert_gins v s : sinsert v s = gins nat Nat.ltb Nat.eqb v s.
Proof. induction s; simpl; auto. Qed.

Lemma nat_total a b : (a <? b) = false -> (a =? b) = false -> (b <? a) = true.
Proof.
  intros H1 H2. apply Nat.ltb_ge in H1. apply Nat.eqb_neq in H2. apply Nat.ltb_lt. lia.
Qed.
Lemma nat_trans a b c : (a <? b) = true -> (b <? c) = true -> (a <? c) = true.
Proof. rewrite !Nat.ltb_lt. lia. Qed.

Theorem sinsert_In v x s : In v (sinsert x s) <-> v = x \/ In v s.
Proof. rewrite sinsert_gins. apply gins_In. apply Nat.eqb_eq. Qed.

Theorem sinsert_sorted x s : sorted s -> sorted (sinsert x s).
Proof.
  rewrite !sorted_gsorted, sinsert_gins.
  apply gins_sorted; [apply Nat.eqb_eq | apply nat_trans | apply nat_total].
Qed.

Theorem canon_In v s : In v (canon s) <-> In v s.
Proof. unfold canon. induction s; simpl. tauto. rewrite sinsert_In, IHs. intuition. Qed.

Theorem canon_sorted s : sorted (canon s).
Proof. unfold canon. induction s; simpl. constructor. apply sinsert_sorted; auto. Qed.

(* membership in a union holds for every [b]; sortedness needs [b] sorted *)
Theorem sunion_In v a b : In v (sunion a b) <-> In v a \/ In v b.
Proof. unfold sunion. induction a; simpl. tauto. rewrite sinsert_In, IHa. intuition. Qed.

Theorem sunion_sorted a b : sorted b -> sorted (sunion a b).
Proof. unfold sunion. intros Hb. induction a; simpl; auto. apply sinsert_sorted; auto. Qed.

Theorem sunions_sorted ss : sorted (sunions ss).
Proof. unfold sunions. induction ss; simpl. constructor. apply sunion_sorted; auto. Qed.

Theorem sunions_In v ss : In v (sunions ss) <-> exists s, In s ss /\ In v s.
Proof.
  unfold sunions. induction ss as [|a ss IH]; simpl.
  - split; [tauto | intros [s [[] _]]].
  - rewrite sunion_In, IH. split.
    + intros [H|[s [H1 H2]]]; [exists a; auto | exists s; auto].
    + intros [s [[H1|H1] H2]]; [subst; auto | right; exists s; auto].
Qed.

Theorem smem_In v s : smem v s = true <-> In v s.
Proof.
  unfold smem. rewrite existsb_exists. split.
  - intros [x [H1 H2]]. apply Nat.eqb_eq in H2. subst; auto.
  - intros H. exists v. split; auto. apply Nat.eqb_refl.
Qed.

Theorem sinter_In v a b : In v (sinter a b) <-> In v a /\ In v b.
Proof. unfold sinter. rewrite filter_In, smem_In. tauto. Qed.

Theorem sdiff_In v a b : In v (sdiff a b) <-> In v a /\ ~ In v b.
Proof.
  unfold sdiff. rewrite filter_In, negb_true_iff, <- not_true_iff_false, smem_In. tauto.
Qed.

Lemma filter_sorted (f : nat -> bool) s : sorted s -> sorted (filter f s).
Proof.
  unfold sorted. induction 1 as [|x r Hr IH Hall]; simpl. constructor.
  destruct (f x); auto. constructor; auto.
  rewrite Forall_forall in *. intros y Hy. apply filter_In in Hy. apply Hall. tauto.
Qed.
Theorem sinter_sorted a b : sorted a -> sorted (sinter a b).
Proof. apply filter_sorted. Qed.
Theorem sdiff_sorted a b : sorted a -> sorted (sdiff a b).
Proof. apply filter_sorted. Qed.

Theorem ssubset_iff a b : ssubset a b = true <-> forall v, In v a -> In v b.
Proof.
  unfold ssubset. rewrite forallb_forall. split; intros H v Hv.
  - apply smem_In. auto.
  - apply smem_In. auto.
Qed.

Theorem sdisjoint_iff a b : sdisjoint a b = true <-> forall v, In v a -> ~ In v b.
Proof.
  unfold sdisjoint. rewrite forallb_forall. split; intros H v Hv.
  - specialize (H v Hv). rewrite negb_true_iff, <- not_true_iff_false, smem_In in H. exact H.
  - rewrite negb_true_iff, <- not_true_iff_false, smem_In. auto.
Qed.

Lemma list_eqb_cons x a y b : list_eqb (x :: a) (y :: b) = (x =? y) && list_eqb a b.
Proof.
  unfold list_eqb; simpl. destruct (length a =? length b), (x =? y); simpl; reflexivity.
Qed.

Theorem seqb_eq a : forall b, seqb a b = true <-> a = b.
Proof.
  unfold seqb. induction a as [|x a IH]; intros [|y b].
  - split; reflexivity.
  - split; discriminate.
  - split; discriminate.
  - rewrite list_eqb_cons, andb_true_iff, Nat.eqb_eq, IH. split.
    + intros [-> ->]; reflexivity.
    + intros H; inversion H; auto.
Qed.

Lemma seqb_refl a : seqb a a = true.
Proof. apply seqb_eq; reflexivity. Qed.

Lemma seqb_sym a b : seqb a b = seqb b a.
Proof.
  destruct (seqb a b) eqn:H1, (seqb b a) eqn:H2; auto.
  - apply seqb_eq in H1. subst. rewrite seqb_refl in H2. discriminate.
  - apply seqb_eq in H2. subst. rewrite seqb_refl in H1. discriminate.
Qed.

Theorem sorted_ext a b : sorted a -> sorted b -> set_eq a b -> a = b.
Proof.
  rewrite !sorted_gsorted. intros Ha Hb Hab.
  eapply gsorted_ext; eauto using nat_trans, Nat.ltb_irrefl.
Qed.

Theorem seqb_iff a b : sorted a -> sorted b -> (seqb a b = true <-> set_eq a b).
Proof.
  intros Ha Hb. rewrite seqb_eq. split.
  - intros ->. intros v; tauto.
  - apply sorted_ext; auto.
Qed.

Lemma sorted_nil : sorted [].
Proof. constructor. Qed.
Lemma sorted_single v : sorted [v].
Proof. constructor; constructor. Qed.

(* ================================================================== *)
(* 2. Scopes                                                            *)
(* ================================================================== *)
Notation SS := Datatypes.S (only parsing).

Definition node_scope (l : layer) (ins : list nat) (acc : list (list nat)) : list nat :=
  if is_input l then in_scope l else sunions (map (fun j => nth j acc []) ins).

(* well-scoped: every node only refers to earlier nodes *)
Definition wsc (c : circuit) : Prop :=
  forall i l ins, nth_error (nodes c) i = Some (l, ins) -> forall j, In j ins -> j < i.

Lemma in_scope_sorted l : sorted (in_scope l).
Proof. destruct l; simpl; auto using sorted_nil, sorted_single. Qed.

Lemma node_scope_sorted l ins acc : sorted (node_scope l ins acc).
Proof. unfold node_scope. destruct (is_input l). apply in_scope_sorted. apply sunions_sorted. Qed.

Lemma scopes_from_cons l ins r acc :
  scopes_from ((l, ins) :: r) acc = scopes_from r (acc ++ [node_scope l ins acc]).
Proof. reflexivity. Qed.

Lemma scopes_from_app ns1 : forall ns2 acc,
  scopes_from (ns1 ++ ns2) acc = scopes_from ns2 (scopes_from ns1 acc).
Proof.
  induction ns1 as [|[l ins] r IH]; intros ns2 acc; simpl; auto.
Qed.

Lemma scopes_from_length ns : forall acc,
  length (scopes_from ns acc) = length acc + length ns.
Proof.
  induction ns as [|[l ins] r IH]; intros acc; simpl. lia.
  rewrite IH, app_length. simpl. lia.
Qed.

Lemma scopes_from_old ns : forall acc i d,
  i < length acc -> nth i (scopes_from ns acc) d = nth i acc d.
Proof.
  induction ns as [|[l ins] r IH]; intros acc i d Hi; simpl; auto.
  rewrite IH by (rewrite app_length; simpl; lia). apply app_nth1; assumption.
Qed.

Lemma scopes_from_sorted ns : forall acc,
  Forall sorted acc -> Forall sorted (scopes_from ns acc).
Proof.
  induction ns as [|[l ins] r IH]; intros acc Hacc; simpl; auto.
  apply IH. apply Forall_app. split; auto. constructor; auto.
  apply (node_scope_sorted l ins acc).
Qed.

Theorem scopes_length c : length (scopes c) = length (nodes c).
Proof. unfold scopes. rewrite scopes_from_length. reflexivity. Qed.

Theorem scopes_sorted c : Forall sorted (scopes c).
Proof. apply scopes_from_sorted. constructor. Qed.

Theorem scopes_nth_sorted c i : sorted (nth i (scopes c) []).
Proof.
  destruct (Nat.lt_ge_cases i (length (scopes c))) as [H|H].
  - pose proof (scopes_sorted c) as Hs. rewrite Forall_forall in Hs. apply Hs. apply nth_In; auto.
  - rewrite nth_overflow by assumption. apply sorted_nil.
Qed.

(* the scope stored at the position of a node *)
Lemma scopes_at c pre l ins post :
  nodes c = pre ++ (l, ins) :: post ->
  nth (length pre) (scopes c) [] = node_scope l ins (scopes_from pre []) /\
  forall j, j < length pre -> nth j (scopes_from pre []) [] = nth j (scopes c) [].
Proof.
  intros Hn. unfold scopes. rewrite Hn, scopes_from_app, scopes_from_cons.
  assert (Hlen : length (scopes_from pre []) = length pre).
  { rewrite scopes_from_length. reflexivity. }
  set (sp := scopes_from pre []) in *.
  assert (Hlen' : length (sp ++ [node_scope l ins sp]) = SS (length pre)).
  { rewrite app_length, Hlen. simpl. lia. }
  split.
  - rewrite scopes_from_old by lia.
    rewrite app_nth2 by lia. rewrite Hlen, Nat.sub_diag. reflexivity.
  - intros j Hj. rewrite scopes_from_old by lia.
    rewrite app_nth1 by lia. reflexivity.
Qed.

Lemma nth_error_split_at {A} (l : list A) i x :
  nth_error l i = Some x -> exists pre post, l = pre ++ x :: post /\ length pre = i.
Proof.
  intros H. destruct (nth_error_split l i H) as [l1 [l2 [H1 H2]]]. eauto.
Qed.

(* snoc / nth characterisation, with the local well-scopedness hypothesis *)
Theorem scopes_nth_error c i l ins :
  nth_error (nodes c) i = Some (l, ins) ->
  (forall j, In j ins -> j < i) ->
  nth i (scopes c) [] =
    if is_input l then in_scope l
    else sunions (map (fun j => nth j (scopes c) []) ins).
Proof.
  intros Hn Hlt. destruct (nth_error_split_at _ _ _ Hn) as [pre [post [Hsplit Hlen]]].
  destruct (scopes_at c pre l ins post Hsplit) as [H1 H2]. rewrite Hlen in H1, H2.
  rewrite H1. unfold node_scope. destruct (is_input l); auto.
  f_equal. apply map_ext_in. intros j Hj. apply H2. auto.
Qed.

Theorem scopes_nth c i d l ins :
  i < length (nodes c) -> nth i (nodes c) d = (l, ins) ->
  (forall j, In j ins -> j < i) ->
  nth i (scopes c) [] =
    if is_input l then in_scope l
    else sunions (map (fun j => nth j (scopes c) []) ins).
Proof.
  intros Hi Hn. apply scopes_nth_error. rewrite <- Hn. apply nth_error_nth'. assumption.
Qed.

Theorem scopes_nth_wsc c : wsc c -> forall i d l ins,
  i < length (nodes c) -> nth i (nodes c) d = (l, ins) ->
  nth i (scopes c) [] =
    if is_input l then in_scope l
    else sunions (map (fun j => nth j (scopes c) []) ins).
Proof.
  intros Hw i d l ins Hi Hn. eapply scopes_nth; eauto.
  apply (Hw i l ins). rewrite <- Hn. apply nth_error_nth'. assumption.
Qed.

(* ================================================================== *)
(* 3. Smoothness                                                        *)
(* ================================================================== *)
Lemma in_combine_seq {A} (l : list A) : forall s i x,
  In (i, x) (combine (seq s (length l)) l) <-> s <= i /\ nth_error l (i - s) = Some x.
Proof.
  induction l as [|a l IH]; intros s i x; simpl.
  - split; [tauto | intros [_ H]; destruct (i - s); discriminate].
  - rewrite IH. split.
    + intros [H|[H1 H2]].
      * inversion H; subst. split; [lia|]. rewrite Nat.sub_diag. reflexivity.
      * split; [lia|]. replace (i - s) with (SS (i - SS s)) by lia. exact H2.
    + intros [H1 H2]. destruct (Nat.eq_dec s i) as [E|E].
      * left. subst. rewrite Nat.sub_diag in H2. simpl in H2. congruence.
      * right. split; [lia|]. replace (i - s) with (SS (i - SS s)) in H2 by lia. exact H2.
Qed.

Lemma in_combine_seq0 {A} (l : list A) i x :
  In (i, x) (combine (seq 0 (length l)) l) <-> nth_error l i = Some x.
Proof. rewrite in_combine_seq, Nat.sub_0_r. split; [tauto | split; [lia | assumption]]. Qed.

(* smoothness does not actually need well-scopedness *)
Theorem smooth_iff' c :
  is_smooth c = true <->
  forall i l ins, nth_error (nodes c) i = Some (l, ins) -> is_sum l = true ->
  forall j, In j ins ->
  forall v, In v (nth j (scopes c) []) <-> In v (nth i (scopes c) []).
Proof.
  unfold is_smooth. rewrite forallb_forall. split.
  - intros H i l ins Hn Hs j Hj.
    specialize (H (i, (l, ins)) (proj2 (in_combine_seq0 _ _ _) Hn)). simpl in H.
    rewrite Hs, forallb_forall in H. specialize (H j Hj).
    apply seqb_iff in H; auto using scopes_nth_sorted.
  - intros H [i [l ins]] Hin. apply in_combine_seq0 in Hin.
    destruct (is_sum l) eqn:Hs; auto. rewrite forallb_forall. intros j Hj.
    apply seqb_iff; auto using scopes_nth_sorted. exact (H i l ins Hin Hs j Hj).
Qed.

Theorem smooth_iff c : wsc c ->
  (is_smooth c = true <->
   forall i l ins, nth_error (nodes c) i = Some (l, ins) -> is_sum l = true ->
   forall j, In j ins ->
   forall v, In v (nth j (scopes c) []) <-> In v (nth i (scopes c) [])).
Proof. intros _. apply smooth_iff'. Qed.

(* ================================================================== *)
(* 4. Decomposability                                                   *)
(* ================================================================== *)
Lemma all_pairs_iff {X} (f : X -> X -> bool) (d : X) l :
  all_pairs f l = true <->
  forall p q, p < q -> q < length l -> f (nth p l d) (nth q l d) = true.
Proof.
  induction l as [|x r IH]; simpl.
  - split; auto. intros _ p q H1 H2. lia.
  - rewrite andb_true_iff, forallb_forall, IH. split.
    + intros [H1 H2] p q Hpq Hq. destruct q as [|q]; [lia|]. destruct p as [|p].
      * apply H1. apply nth_In. lia.
      * apply H2; lia.
    + intros H. split.
      * intros y Hy. apply (In_nth _ _ d) in Hy. destruct Hy as [n [Hn Hy]]. subst y.
        apply (H 0 (SS n)); lia.
      * intros p q Hpq Hq. apply (H (SS p) (SS q)); lia.
Qed.

Lemma nth_map_scopes (sc : list (list nat)) ins p : p < length ins ->
  nth p (map (fun j => nth j sc []) ins) [] = nth (nth p ins 0) sc [].
Proof.
  intros Hp.
  rewrite (nth_indep _ [] ((fun j => nth j sc []) 0)) by (rewrite map_length; assumption).
  apply (map_nth (fun j => nth j sc [])).
Qed.

Theorem decomposable_iff c :
  is_decomposable c = true <->
  forall l ins, In (l, ins) (nodes c) -> is_prod l = true ->
  forall p q, p < q -> q < length ins ->
  forall v, ~ (In v (nth (nth p ins 0) (scopes c) []) /\ In v (nth (nth q ins 0) (scopes c) [])).
Proof.
  unfold is_decomposable. rewrite forallb_forall. split.
  - intros H l ins Hin Hp p q Hpq Hq v [Hv1 Hv2].
    specialize (H (l, ins) Hin). simpl in H. rewrite Hp in H.
    rewrite (all_pairs_iff _ []) in H. specialize (H p q Hpq).
    rewrite map_length in H. specialize (H Hq).
    rewrite !nth_map_scopes in H by lia. rewrite sdisjoint_iff in H. exact (H v Hv1 Hv2).
  - intros H [l ins] Hin. destruct (is_prod l) eqn:Hp; auto.
    rewrite (all_pairs_iff _ []). intros p q Hpq Hq. rewrite map_length in Hq.
    rewrite !nth_map_scopes by lia. rewrite sdisjoint_iff. intros v Hv1 Hv2.
    exact (H l ins Hin Hp p q Hpq Hq v (conj Hv1 Hv2)).
Qed.

(* ================================================================== *)
(* 5. The lexicographic order, canonical factorizations, symmetry       *)
(* ================================================================== *)
Lemma slex_irrefl a : slex_lt a a = false.
Proof. induction a; simpl; auto. rewrite Nat.ltb_irrefl. assumption. Qed.

Lemma slex_trans a : forall b c,
  slex_lt a b = true -> slex_lt b c = true -> slex_lt a c = true.
Proof.
  induction a as [|x a IH]; intros [|y b] [|z c]; simpl; try congruence; auto.
  destruct (Nat.ltb_spec x y), (Nat.ltb_spec y x), (Nat.ltb_spec y z), (Nat.ltb_spec z y),
           (Nat.ltb_spec x z), (Nat.ltb_spec z x); try lia; try congruence; eauto.
Qed.

Lemma slex_total a : forall b,
  slex_lt a b = false -> seqb a b = false -> slex_lt b a = true.
Proof.
  unfold seqb.
  induction a as [|x a IH]; intros [|y b]; simpl; try congruence; auto.
  rewrite list_eqb_cons.
  destruct (Nat.ltb_spec x y), (Nat.ltb_spec y x); try lia; try congruence.
  assert (x = y) by lia. subst. rewrite Nat.eqb_refl. simpl. apply IH.
Qed.

Definition fsorted : list (list nat) -> Prop := gsorted (list nat) slex_lt.

Lemma ssort_insert_gins s l : ssort_insert s l = gins (list nat) slex_lt seqb s l.
Proof. induction l; simpl; auto. Qed.

Lemma sempty_false s : negb (sempty s) = true <-> s <> [].
Proof. destruct s; simpl; split; congruence. Qed.

Lemma fcanon_gcanon f :
  fcanon f = gcanon (list nat) slex_lt seqb (filter (fun s => negb (sempty s)) f).
Proof.
  unfold fcanon, gcanon. induction (filter (fun s => negb (sempty s)) f); simpl; auto.
Qed.

Theorem fcanon_sorted f : fsorted (fcanon f).
Proof.
  rewrite fcanon_gcanon. apply gcanon_sorted.
  - apply seqb_eq.
  - apply slex_trans.
  - apply slex_total.
Qed.

Theorem fcanon_In s f : In s (fcanon f) <-> In s f /\ s <> [].
Proof.
  rewrite fcanon_gcanon, gcanon_In by apply seqb_eq.
  rewrite filter_In, sempty_false. tauto.
Qed.

(* [fcanon] is a canonical form for the set of non-empty members *)
Theorem fcanon_eq_iff f g :
  fcanon f = fcanon g <-> (forall s, s <> [] -> (In s f <-> In s g)).
Proof.
  split.
  - intros H s Hs. pose proof (fcanon_In s f) as H1. pose proof (fcanon_In s g) as H2.
    rewrite H in H1. tauto.
  - intros H. rewrite !fcanon_gcanon. apply gcanon_ext.
    + apply seqb_eq.
    + apply slex_irrefl.
    + apply slex_trans.
    + apply slex_total.
    + intros s. rewrite !filter_In, sempty_false. specialize (H s). tauto.
Qed.

Lemma feqb_cons x f y g : feqb (x :: f) (y :: g) = seqb x y && feqb f g.
Proof.
  unfold feqb; simpl. destruct (length f =? length g), (seqb x y); simpl; reflexivity.
Qed.

Theorem feqb_eq f : forall g, feqb f g = true <-> f = g.
Proof.
  induction f as [|x f IH]; intros [|y g].
  - split; reflexivity.
  - split; discriminate.
  - split; discriminate.
  - rewrite feqb_cons, andb_true_iff, seqb_eq, IH. split.
    + intros [-> ->]; reflexivity.
    + intros H; inversion H; auto.
Qed.

(* the set-of-sets reading of a factorization *)
Definition same_split (f g : list (list nat)) : Prop :=
  (forall s, In s f -> s <> [] -> exists t, In t g /\ set_eq s t) /\
  (forall t, In t g -> t <> [] -> exists s, In s f /\ set_eq t s).

Lemma set_eq_refl s : set_eq s s.
Proof. intros v; tauto. Qed.
Lemma set_eq_sym s t : set_eq s t -> set_eq t s.
Proof. intros H v; specialize (H v); tauto. Qed.
Lemma set_eq_nil s t : set_eq s t -> s <> [] -> t <> [].
Proof.
  intros H Hs Ht. subst t. destruct s as [|x s]; auto. apply (H x). left; reflexivity.
Qed.

Theorem fcanon_canonical f g : Forall sorted f -> Forall sorted g ->
  (feqb (fcanon f) (fcanon g) = true <-> same_split f g).
Proof.
  intros Hf Hg. rewrite Forall_forall in Hf, Hg. rewrite feqb_eq, fcanon_eq_iff. split.
  - intros H. split.
    + intros s Hs Hne. exists s. split; [apply H; auto | apply set_eq_refl].
    + intros t Ht Hne. exists t. split; [apply H; auto | apply set_eq_refl].
  - intros [H1 H2] s Hne. split; intros Hs.
    + destruct (H1 s Hs Hne) as [t [Ht Hst]].
      rewrite (sorted_ext s t); auto.
    + destruct (H2 s Hs Hne) as [t [Ht Hst]].
      rewrite (sorted_ext s t); auto.
Qed.

(* ---- all_same / facts_of / the pairwise check ---- *)
Definition pairs_ok (F : list (list nat * list (list nat))) : bool :=
  forallb (fun p => all_same (facts_of (fst p) F)) F.

Lemma compatible_unfold a b :
  compatible a b =
  is_smooth a && is_decomposable a && is_smooth b && is_decomposable b &&
  pairs_ok (factorizations a ++ factorizations b).
Proof. reflexivity. Qed.

Lemma is_sd_unfold c :
  is_sd c = is_smooth c && is_decomposable c && pairs_ok (factorizations c).
Proof. reflexivity. Qed.

Lemma all_same_iff fs : all_same fs = true <-> forall f g, In f fs -> In g fs -> f = g.
Proof.
  destruct fs as [|h r]; simpl.
  - split; auto. intros _ f g [].
  - rewrite forallb_forall. split.
    + intros H f g [Hf|Hf] [Hg|Hg]; subst.
      * reflexivity.
      * apply feqb_eq. auto.
      * symmetry. apply feqb_eq. auto.
      * transitivity h; [symmetry|]; apply feqb_eq; auto.
    + intros H g Hg. apply feqb_eq. apply H; auto.
Qed.

Lemma facts_of_In f s F : In f (facts_of s F) <-> In (s, f) F.
Proof.
  unfold facts_of. rewrite in_map_iff. split.
  - intros [[s' f'] [H1 H2]]. simpl in H1. subst f'. apply filter_In in H2.
    destruct H2 as [H2 H3]. simpl in H3. apply seqb_eq in H3. subst. assumption.
  - intros H. exists (s, f). split; auto. apply filter_In. split; auto. apply seqb_refl.
Qed.

Lemma pairs_ok_iff F :
  pairs_ok F = true <->
  forall s f g, In (s, f) F -> In (s, g) F -> f = g.
Proof.
  unfold pairs_ok. rewrite forallb_forall. split.
  - intros H s f g Hf Hg. specialize (H (s, f) Hf). simpl in H.
    rewrite all_same_iff in H. apply H; apply facts_of_In; assumption.
  - intros H [s h] Hp. simpl. apply all_same_iff. intros f g Hf Hg.
    apply facts_of_In in Hf, Hg. eapply H; eauto.
Qed.

Lemma pairs_ok_app_comm F G : pairs_ok (F ++ G) = pairs_ok (G ++ F).
Proof.
  apply eq_true_iff_eq. rewrite !pairs_ok_iff.
  split; intros H s f g Hf Hg; apply (H s f g); rewrite in_app_iff in *; tauto.
Qed.

Theorem compatible_sym a b : compatible a b = compatible b a.
Proof.
  rewrite !compatible_unfold, pairs_ok_app_comm.
  destruct (is_smooth a), (is_decomposable a), (is_smooth b), (is_decomposable b); reflexivity.
Qed.

(* ================================================================== *)
(* 6. Soundness of [is_sd] and [compatible]                             *)
(* ================================================================== *)
(* the scopes of the inputs of a node *)
Definition in_scopes (c : circuit) (ins : list nat) : list (list nat) :=
  map (fun j => nth j (scopes c) []) ins.
(* node [i] of [c] is the product layer [l] with inputs [ins] *)
Definition prod_node (c : circuit) (i : nat) (l : layer) (ins : list nat) : Prop :=
  nth_error (nodes c) i = Some (l, ins) /\ is_prod l = true.
(* at least two (positions with) non-empty scopes *)
Definition two_nonempty (ss : list (list nat)) : Prop :=
  exists p q, p < q /\ q < length ss /\ nth p ss [] <> [] /\ nth q ss [] <> [].

Lemma two_members_length {A} (a b : A) l : In a l -> In b l -> a <> b -> 1 < length l.
Proof.
  destruct l as [|x [|y r]]; simpl; try tauto; try lia.
  intros [H1|[]] [H2|[]] H. congruence.
Qed.

Lemma in_scopes_sorted c ins : Forall sorted (in_scopes c ins).
Proof.
  unfold in_scopes. rewrite Forall_forall. intros s Hs. apply in_map_iff in Hs.
  destruct Hs as [j [Hj _]]. subst s. apply scopes_nth_sorted.
Qed.

Lemma factorizations_In c S f :
  In (S, f) (factorizations c) <->
  exists i l ins, prod_node c i l ins /\ S = nth i (scopes c) [] /\
                  f = fcanon (in_scopes c ins) /\ 1 < length f.
Proof.
  unfold factorizations. rewrite in_flat_map. split.
  - intros [[i [l ins]] [Hin H]]. apply in_combine_seq0 in Hin.
    destruct (is_prod l) eqn:Hp; [|destruct H].
    destruct (1 <? length (fcanon (map (fun j => nth j (scopes c) []) ins))) eqn:Hlen;
      [|destruct H].
    destruct H as [H|[]]. inversion H; subst. apply Nat.ltb_lt in Hlen.
    exists i, l, ins. unfold prod_node, in_scopes. auto.
  - intros [i [l [ins [[Hn Hp] [HS [Hf Hlen]]]]]]. exists (i, (l, ins)). split.
    + apply in_combine_seq0. assumption.
    + rewrite Hp. subst f. unfold in_scopes in Hlen. apply Nat.ltb_lt in Hlen.
      rewrite Hlen. left. subst S. reflexivity.
Qed.

(* a decomposable product with two non-empty inputs is recorded in [factorizations] *)
Lemma fact_recorded c i l ins :
  is_decomposable c = true -> prod_node c i l ins -> two_nonempty (in_scopes c ins) ->
  In (nth i (scopes c) [], fcanon (in_scopes c ins)) (factorizations c).
Proof.
  intros Hd [Hn Hp] [p [q [Hpq [Hq [Hp1 Hq1]]]]].
  apply factorizations_In. exists i, l, ins. repeat split; auto.
  unfold is_decomposable in Hd. rewrite forallb_forall in Hd.
  specialize (Hd (l, ins) (nth_error_In _ _ Hn)). simpl in Hd. rewrite Hp in Hd.
  fold (in_scopes c ins) in Hd. rewrite (all_pairs_iff _ []) in Hd.
  specialize (Hd p q Hpq Hq). rewrite sdisjoint_iff in Hd.
  apply (two_members_length (nth p (in_scopes c ins) []) (nth q (in_scopes c ins) [])).
  - apply fcanon_In. split; auto. apply nth_In. lia.
  - apply fcanon_In. split; auto. apply nth_In. lia.
  - intros E. rewrite <- E in Hd. destruct (nth p (in_scopes c ins) []) as [|x r]; [congruence|].
    apply (Hd x); left; reflexivity.
Qed.

Lemma fcanon_same_split f g : fcanon f = fcanon g -> same_split f g.
Proof.
  intros H. rewrite fcanon_eq_iff in H. split.
  - intros s Hs Hne. exists s. split; [apply H; auto | apply set_eq_refl].
  - intros t Ht Hne. exists t. split; [apply H; auto | apply set_eq_refl].
Qed.

(* the common core: both nodes are recorded in a list [F] that passes the pairwise check *)
Lemma pairs_ok_sound F c1 c2 i1 l1 ins1 i2 l2 ins2 :
  pairs_ok F = true ->
  (forall x, In x (factorizations c1) -> In x F) ->
  (forall x, In x (factorizations c2) -> In x F) ->
  is_decomposable c1 = true -> is_decomposable c2 = true ->
  prod_node c1 i1 l1 ins1 -> prod_node c2 i2 l2 ins2 ->
  set_eq (nth i1 (scopes c1) []) (nth i2 (scopes c2) []) ->
  two_nonempty (in_scopes c1 ins1) -> two_nonempty (in_scopes c2 ins2) ->
  same_split (in_scopes c1 ins1) (in_scopes c2 ins2).
Proof.
  intros Hok HF1 HF2 Hd1 Hd2 Hn1 Hn2 Hsc Ht1 Ht2.
  apply fcanon_same_split. rewrite pairs_ok_iff in Hok.
  apply (Hok (nth i1 (scopes c1) [])).
  - apply HF1. apply (fact_recorded c1 i1 l1 ins1); assumption.
  - rewrite (sorted_ext _ _ (scopes_nth_sorted c1 i1) (scopes_nth_sorted c2 i2) Hsc).
    apply HF2. apply (fact_recorded c2 i2 l2 ins2); assumption.
Qed.

Theorem is_sd_sound c : is_sd c = true ->
  forall i1 l1 ins1 i2 l2 ins2,
  prod_node c i1 l1 ins1 -> prod_node c i2 l2 ins2 ->
  set_eq (nth i1 (scopes c) []) (nth i2 (scopes c) []) ->
  two_nonempty (in_scopes c ins1) -> two_nonempty (in_scopes c ins2) ->
  same_split (in_scopes c ins1) (in_scopes c ins2).
Proof.
  rewrite is_sd_unfold, !andb_true_iff. intros [[Hs Hd] Hok] i1 l1 ins1 i2 l2 ins2.
  apply (pairs_ok_sound (factorizations c)); auto.
Qed.

Theorem compatible_sound a b : compatible a b = true ->
  forall c1 c2, (c1 = a \/ c1 = b) -> (c2 = a \/ c2 = b) ->
  forall i1 l1 ins1 i2 l2 ins2,
  prod_node c1 i1 l1 ins1 -> prod_node c2 i2 l2 ins2 ->
  set_eq (nth i1 (scopes c1) []) (nth i2 (scopes c2) []) ->
  two_nonempty (in_scopes c1 ins1) -> two_nonempty (in_scopes c2 ins2) ->
  same_split (in_scopes c1 ins1) (in_scopes c2 ins2).
Proof.
  rewrite compatible_unfold, !andb_true_iff.
  intros [[[[Hsa Hda] Hsb] Hdb] Hok] c1 c2 H1 H2 i1 l1 ins1 i2 l2 ins2.
  apply (pairs_ok_sound (factorizations a ++ factorizations b)); auto.
  - intros x Hx. apply in_app_iff. destruct H1; subst; auto.
  - intros x Hx. apply in_app_iff. destruct H2; subst; auto.
  - destruct H1; subst; auto.
  - destruct H2; subst; auto.
Qed.

(* compatible circuits are each structured-decomposable, smooth and decomposable *)
Theorem compatible_is_sd a b : compatible a b = true -> is_sd a = true /\ is_sd b = true.
Proof.
  rewrite compatible_unfold, !is_sd_unfold, !andb_true_iff.
  intros [[[[Hsa Hda] Hsb] Hdb] Hok]. rewrite pairs_ok_iff in Hok.
  repeat split; auto; apply pairs_ok_iff; intros s f g Hf Hg;
    apply (Hok s f g); apply in_app_iff; auto.
Qed.

(* ================================================================== *)
(* 7. Invariance under the order in which a layer lists its inputs      *)
(* ================================================================== *)
(* general form: every node may list its inputs in a different order *)
Definition perm_nodes (ns ns' : list (layer * list nat)) : Prop :=
  Forall2 (fun n n' => fst n = fst n' /\ Permutation (snd n) (snd n')) ns ns'.
(* the form asked for: exactly one node [length pre] has its inputs permuted *)
Definition reorder_one (c c' : circuit) : Prop :=
  exists pre l ins ins' post,
    nodes c = pre ++ (l, ins) :: post /\ nodes c' = pre ++ (l, ins') :: post /\
    Permutation ins ins' /\ outs c' = outs c.

Lemma perm_nodes_refl ns : perm_nodes ns ns.
Proof. induction ns; constructor; auto. Qed.

Lemma reorder_one_perm_nodes c c' : reorder_one c c' -> perm_nodes (nodes c) (nodes c').
Proof.
  intros [pre [l [ins [ins' [post [H1 [H2 [HP _]]]]]]]]. rewrite H1, H2.
  apply Forall2_app. apply perm_nodes_refl. constructor. simpl; auto. apply perm_nodes_refl.
Qed.

Lemma sunions_ext ss ss' : (forall s, In s ss <-> In s ss') -> sunions ss = sunions ss'.
Proof.
  intros H. apply sorted_ext; try apply sunions_sorted.
  intros v. rewrite !sunions_In. split; intros [s [H1 H2]]; exists s; split; auto; apply H; auto.
Qed.

Lemma perm_map_In {A B} (g : A -> B) l l' : Permutation l l' ->
  forall s, In s (map g l) <-> In s (map g l').
Proof.
  intros HP s. split; apply Permutation_in; apply Permutation_map; auto using Permutation_sym.
Qed.

Lemma node_scope_perm l ins ins' acc : Permutation ins ins' ->
  node_scope l ins acc = node_scope l ins' acc.
Proof.
  intros HP. unfold node_scope. destruct (is_input l); auto.
  apply sunions_ext. apply perm_map_In. assumption.
Qed.

Lemma scopes_from_perm ns ns' : perm_nodes ns ns' ->
  forall acc, scopes_from ns acc = scopes_from ns' acc.
Proof.
  induction 1 as [|[l ins] [l' ins'] r r' [Hl HP] Hr IH]; intros acc; auto.
  simpl in Hl, HP. subst l'. rewrite !scopes_from_cons.
  rewrite (node_scope_perm l ins ins' acc HP). apply IH.
Qed.

Lemma forallb_perm {A} (f : A -> bool) l l' : Permutation l l' -> forallb f l = forallb f l'.
Proof.
  intros HP. apply eq_true_iff_eq. rewrite !forallb_forall.
  split; intros H x Hx; apply H.
  - eapply Permutation_in; [apply Permutation_sym; exact HP | exact Hx].
  - eapply Permutation_in; [exact HP | exact Hx].
Qed.

Lemma all_pairs_perm {A} (f : A -> A -> bool) : (forall x y, f x y = f y x) ->
  forall l l', Permutation l l' -> all_pairs f l = all_pairs f l'.
Proof.
  intros Hsym. induction 1 as [|x l l' HP IH|x y l|l l' l'' HP1 IH1 HP2 IH2]; simpl.
  - reflexivity.
  - rewrite IH, (forallb_perm (f x) l l' HP). reflexivity.
  - rewrite (Hsym y x).
    destruct (f x y), (forallb (f y) l), (forallb (f x) l), (all_pairs f l); reflexivity.
  - congruence.
Qed.

Lemma sdisjoint_sym a b : sdisjoint a b = sdisjoint b a.
Proof.
  apply eq_true_iff_eq. rewrite !sdisjoint_iff.
  split; intros H v H1 H2; apply (H v H2 H1).
Qed.

Lemma fcanon_perm f g : Permutation f g -> fcanon f = fcanon g.
Proof.
  intros HP. apply fcanon_eq_iff. intros s _.
  split; apply Permutation_in; auto using Permutation_sym.
Qed.

Section PermNodes.
Variable sc : list (list nat).

Definition smooth_at (p : nat * (layer * list nat)) : bool :=
  let '(i, (l, ins)) := p in
  if is_sum l then forallb (fun j => seqb (nth j sc []) (nth i sc [])) ins else true.
Definition dec_at (n : layer * list nat) : bool :=
  let '(l, ins) := n in
  if is_prod l then all_pairs sdisjoint (map (fun j => nth j sc []) ins) else true.
Definition fact_at (p : nat * (layer * list nat)) : list (list nat * list (list nat)) :=
  let '(i, (l, ins)) := p in
  if is_prod l then
    let f := fcanon (map (fun j => nth j sc []) ins) in
    if 1 <? length f then [(nth i sc [], f)] else []
  else [].

Lemma smooth_at_perm ns ns' : perm_nodes ns ns' -> forall s,
  forallb smooth_at (combine (seq s (length ns)) ns) =
  forallb smooth_at (combine (seq s (length ns')) ns').
Proof.
  induction 1 as [|[l ins] [l' ins'] r r' [Hl HP] Hr IH]; intros s; auto.
  simpl in Hl, HP. subst l'. simpl. rewrite (IH (SS s)). f_equal.
  destruct (is_sum l); auto. apply forallb_perm. assumption.
Qed.

Lemma dec_at_perm ns ns' : perm_nodes ns ns' -> forallb dec_at ns = forallb dec_at ns'.
Proof.
  induction 1 as [|[l ins] [l' ins'] r r' [Hl HP] Hr IH]; auto.
  simpl in Hl, HP. subst l'. simpl. rewrite IH. f_equal.
  destruct (is_prod l); auto. apply all_pairs_perm. apply sdisjoint_sym.
  apply Permutation_map. assumption.
Qed.

Lemma fact_at_perm ns ns' : perm_nodes ns ns' -> forall s,
  flat_map fact_at (combine (seq s (length ns)) ns) =
  flat_map fact_at (combine (seq s (length ns')) ns').
Proof.
  induction 1 as [|[l ins] [l' ins'] r r' [Hl HP] Hr IH]; intros s; auto.
  simpl in Hl, HP. subst l'. simpl. rewrite (IH (SS s)). f_equal.
  destruct (is_prod l); auto.
  rewrite (fcanon_perm (map (fun j => nth j sc []) ins) (map (fun j => nth j sc []) ins'));
    auto. apply Permutation_map. assumption.
Qed.
End PermNodes.

Lemma is_smooth_unfold c :
  is_smooth c = forallb (smooth_at (scopes c)) (combine (seq 0 (length (nodes c))) (nodes c)).
Proof. reflexivity. Qed.
Lemma is_decomposable_unfold c : is_decomposable c = forallb (dec_at (scopes c)) (nodes c).
Proof. reflexivity. Qed.
Lemma factorizations_unfold c :
  factorizations c =
  flat_map (fact_at (scopes c)) (combine (seq 0 (length (nodes c))) (nodes c)).
Proof. reflexivity. Qed.

(* ---- general versions ---- *)
Theorem scopes_perm_nodes c c' : perm_nodes (nodes c) (nodes c') -> scopes c' = scopes c.
Proof. intros H. unfold scopes. symmetry. apply scopes_from_perm. assumption. Qed.

Theorem is_smooth_perm_nodes c c' :
  perm_nodes (nodes c) (nodes c') -> is_smooth c' = is_smooth c.
Proof.
  intros H. rewrite !is_smooth_unfold, (scopes_perm_nodes c c' H). symmetry.
  apply smooth_at_perm. assumption.
Qed.

Theorem is_decomposable_perm_nodes c c' :
  perm_nodes (nodes c) (nodes c') -> is_decomposable c' = is_decomposable c.
Proof.
  intros H. rewrite !is_decomposable_unfold, (scopes_perm_nodes c c' H). symmetry.
  apply dec_at_perm. assumption.
Qed.

Theorem factorizations_perm_nodes c c' :
  perm_nodes (nodes c) (nodes c') -> factorizations c' = factorizations c.
Proof.
  intros H. rewrite !factorizations_unfold, (scopes_perm_nodes c c' H). symmetry.
  apply fact_at_perm. assumption.
Qed.

Theorem is_sd_perm_nodes c c' : perm_nodes (nodes c) (nodes c') -> is_sd c' = is_sd c.
Proof.
  intros H. rewrite !is_sd_unfold, (is_smooth_perm_nodes c c' H),
    (is_decomposable_perm_nodes c c' H), (factorizations_perm_nodes c c' H). reflexivity.
Qed.

Theorem compatible_perm_nodes_l c c' b :
  perm_nodes (nodes c) (nodes c') -> compatible c' b = compatible c b.
Proof.
  intros H. rewrite !compatible_unfold, (is_smooth_perm_nodes c c' H),
    (is_decomposable_perm_nodes c c' H), (factorizations_perm_nodes c c' H). reflexivity.
Qed.

Theorem compatible_perm_nodes_r c c' b :
  perm_nodes (nodes c) (nodes c') -> compatible b c' = compatible b c.
Proof.
  intros H. rewrite (compatible_sym b c'), (compatible_sym b c).
  apply compatible_perm_nodes_l. assumption.
Qed.

(* ---- the one-node versions ---- *)
Theorem scopes_reorder c c' : reorder_one c c' -> scopes c' = scopes c.
Proof. intros H. apply scopes_perm_nodes, reorder_one_perm_nodes, H. Qed.
Theorem is_smooth_reorder c c' : reorder_one c c' -> is_smooth c' = is_smooth c.
Proof. intros H. apply is_smooth_perm_nodes, reorder_one_perm_nodes, H. Qed.
Theorem is_decomposable_reorder c c' : reorder_one c c' -> is_decomposable c' = is_decomposable c.
Proof. intros H. apply is_decomposable_perm_nodes, reorder_one_perm_nodes, H. Qed.
Theorem factorizations_reorder c c' : reorder_one c c' -> factorizations c' = factorizations c.
Proof. intros H. apply factorizations_perm_nodes, reorder_one_perm_nodes, H. Qed.
Theorem is_sd_reorder c c' : reorder_one c c' -> is_sd c' = is_sd c.
Proof. intros H. apply is_sd_perm_nodes, reorder_one_perm_nodes, H. Qed.
Theorem compatible_reorder_l c c' b : reorder_one c c' -> compatible c' b = compatible c b.
Proof. intros H. apply compatible_perm_nodes_l, reorder_one_perm_nodes, H. Qed.
Theorem compatible_reorder_r c c' b : reorder_one c c' -> compatible b c' = compatible b c.
Proof. intros H. apply compatible_perm_nodes_r, reorder_one_perm_nodes, H. Qed.

(* ================================================================== *)
(* 8. Invariance under an injective renaming of the variables           *)
(* ================================================================== *)
Lemma forallb_ext' {A} (f g : A -> bool) l : (forall x, f x = g x) -> forallb f l = forallb g l.
Proof. intros H. induction l; simpl; auto. rewrite H, IHl. reflexivity. Qed.
Lemma forallb_map' {A B} (f : B -> bool) (g : A -> B) l :
  forallb f (map g l) = forallb (fun x => f (g x)) l.
Proof. induction l; simpl; auto. rewrite IHl. reflexivity. Qed.
Lemma NoDup_map_inj_in {A B} (f : A -> B) l :
  (forall x y, In x l -> In y l -> f x = f y -> x = y) -> NoDup l -> NoDup (map f l).
Proof.
  intros Hinj Hnd. induction Hnd as [|x l Hx Hnd IH]; simpl; constructor.
  - intros Hin. apply in_map_iff in Hin. destruct Hin as [y [Hy Hin]].
    assert (y = x) by (apply Hinj; simpl; auto). subst. contradiction.
  - apply IH. intros a b Ha Hb. apply Hinj; simpl; auto.
Qed.

Section Rename.
Variable r : nat -> nat.

Fixpoint rename_layer (l : layer) : layer :=
  match l with
  | LEmb v K N w => LEmb (r v) K N w
  | LCat v K N lg p => LCat (r v) K N lg p
  | LBin v K n lg p => LBin (r v) K n lg p
  | LGau v K mu sd lp => LGau (r v) K mu sd lp
  | LPoly v K deg c => LPoly (r v) K deg c
  | LEvi inner obs => LEvi (rename_layer inner) obs
  | _ => l
  end.
Definition rename_node (n : layer * list nat) : layer * list nat := (rename_layer (fst n), snd n).
Definition rename_circuit (c : circuit) : circuit := mkC (map rename_node (nodes c)) (outs c).
(* the image of a scope *)
Definition rs (s : list nat) : list nat := canon (map r s).

Lemma is_input_rename l : is_input (rename_layer l) = is_input l.
Proof. destruct l; reflexivity. Qed.
Lemma is_sum_rename l : is_sum (rename_layer l) = is_sum l.
Proof. destruct l; reflexivity. Qed.
Lemma is_prod_rename l : is_prod (rename_layer l) = is_prod l.
Proof. destruct l; reflexivity. Qed.
Lemma in_scope_rename l : in_scope (rename_layer l) = rs (in_scope l).
Proof. destruct l; reflexivity. Qed.

Lemma rs_In v s : In v (rs s) <-> exists u, In u s /\ v = r u.
Proof.
  unfold rs. rewrite canon_In, in_map_iff. split; intros [u [H1 H2]]; exists u; auto.
Qed.
Lemma rs_sorted s : sorted (rs s).
Proof. apply canon_sorted. Qed.
Lemma rs_nil : rs [] = [].
Proof. reflexivity. Qed.
Lemma rs_eq_nil s : rs s = [] <-> s = [].
Proof.
  split; [|intros ->; reflexivity]. intros H. destruct s as [|x s]; auto. exfalso.
  assert (Hin : In (r x) (rs (x :: s))) by (apply rs_In; exists x; simpl; auto).
  rewrite H in Hin. destruct Hin.
Qed.
Lemma nth_map_rs sc j : nth j (map rs sc) [] = rs (nth j sc []).
Proof. rewrite <- rs_nil at 1. apply map_nth. Qed.
Lemma map_nth_map_rs sc ins :
  map (fun j => nth j (map rs sc) []) ins = map rs (map (fun j => nth j sc []) ins).
Proof. rewrite map_map. apply map_ext. intros j. apply nth_map_rs. Qed.

(* ---- scopes ---- *)
Lemma node_scope_rename l ins acc :
  node_scope (rename_layer l) ins (map rs acc) = rs (node_scope l ins acc).
Proof.
  unfold node_scope. rewrite is_input_rename. destruct (is_input l).
  - apply in_scope_rename.
  - rewrite map_nth_map_rs. set (ss := map (fun j => nth j acc []) ins).
    apply sorted_ext; [apply sunions_sorted | apply rs_sorted |].
    intros v. rewrite sunions_In, rs_In. split.
    + intros [s [Hs Hv]]. apply in_map_iff in Hs. destruct Hs as [t [Ht Hin]]. subst s.
      apply rs_In in Hv. destruct Hv as [u [Hu E]]. exists u. split; auto.
      apply sunions_In. exists t; auto.
    + intros [u [Hu E]]. apply sunions_In in Hu. destruct Hu as [t [Ht Hu]].
      exists (rs t). split. apply in_map; auto. apply rs_In. eauto.
Qed.

Lemma scopes_from_rename ns : forall acc,
  scopes_from (map rename_node ns) (map rs acc) = map rs (scopes_from ns acc).
Proof.
  induction ns as [|[l ins] ns IH]; intros acc; auto.
  change (map rename_node ((l, ins) :: ns)) with ((rename_layer l, ins) :: map rename_node ns).
  rewrite !scopes_from_cons, node_scope_rename, <- IH. f_equal.
  rewrite map_app. reflexivity.
Qed.

Theorem scopes_rename c : scopes (rename_circuit c) = map rs (scopes c).
Proof. unfold scopes. simpl. apply (scopes_from_rename (nodes c) []). Qed.

(* from here on the renaming is injective *)
Hypothesis r_inj : forall x y, r x = r y -> x = y.

Lemma rs_set_eq_inj s t : set_eq (rs s) (rs t) -> set_eq s t.
Proof.
  assert (Hhalf : forall a b, (forall v, In v (rs a) -> In v (rs b)) -> forall u, In u a -> In u b).
  { intros a b H u Hu. assert (Hin : In (r u) (rs a)) by (apply rs_In; eauto).
    apply H, rs_In in Hin. destruct Hin as [u' [Hu' E]]. apply r_inj in E. subst; auto. }
  intros H v. split; apply Hhalf; intros w; apply H.
Qed.
Lemma rs_inj s t : sorted s -> sorted t -> rs s = rs t -> s = t.
Proof.
  intros Hs Ht H. apply sorted_ext; auto. apply rs_set_eq_inj. rewrite H. apply set_eq_refl.
Qed.
Lemma seqb_rs a b : sorted a -> sorted b -> seqb (rs a) (rs b) = seqb a b.
Proof.
  intros Ha Hb. apply eq_true_iff_eq. rewrite !seqb_eq. split.
  - apply rs_inj; auto.
  - intros ->; reflexivity.
Qed.
Lemma sdisjoint_rs a b : sdisjoint (rs a) (rs b) = sdisjoint a b.
Proof.
  apply eq_true_iff_eq. rewrite !sdisjoint_iff. split.
  - intros H v Ha Hb. apply (H (r v)); apply rs_In; eauto.
  - intros H v Ha Hb. apply rs_In in Ha, Hb. destruct Ha as [u [Hu E1]], Hb as [u' [Hu' E2]].
    subst v. apply r_inj in E2. subst u'. apply (H u); auto.
Qed.

(* ---- smoothness and decomposability ---- *)
Lemma sorted_nth sc j : Forall sorted sc -> sorted (nth j sc []).
Proof.
  intros H. destruct (Nat.lt_ge_cases j (length sc)) as [Hj|Hj].
  - rewrite Forall_forall in H. apply H. apply nth_In; auto.
  - rewrite nth_overflow by assumption. apply sorted_nil.
Qed.

Lemma smooth_at_rename sc ns : Forall sorted sc -> forall s,
  forallb (smooth_at (map rs sc))
          (combine (seq s (length (map rename_node ns))) (map rename_node ns)) =
  forallb (smooth_at sc) (combine (seq s (length ns)) ns).
Proof.
  intros Hsc. induction ns as [|[l ins] ns IH]; intros s; auto.
  simpl. rewrite IH. f_equal. rewrite is_sum_rename. destruct (is_sum l); auto.
  apply forallb_ext'. intros j. rewrite !nth_map_rs. apply seqb_rs; apply sorted_nth; auto.
Qed.

Lemma all_pairs_map_rs l : all_pairs sdisjoint (map rs l) = all_pairs sdisjoint l.
Proof.
  induction l as [|x l IH]; simpl; auto. rewrite IH, forallb_map'. f_equal.
  apply forallb_ext'. intros y. apply sdisjoint_rs.
Qed.

Lemma dec_at_rename sc ns :
  forallb (dec_at (map rs sc)) (map rename_node ns) = forallb (dec_at sc) ns.
Proof.
  induction ns as [|[l ins] ns IH]; auto.
  simpl. rewrite IH. f_equal. rewrite is_prod_rename. destruct (is_prod l); auto.
  rewrite map_nth_map_rs. apply all_pairs_map_rs.
Qed.

Theorem is_smooth_rename c : is_smooth (rename_circuit c) = is_smooth c.
Proof.
  rewrite !is_smooth_unfold, scopes_rename. simpl. apply smooth_at_rename. apply scopes_sorted.
Qed.

Theorem is_decomposable_rename c : is_decomposable (rename_circuit c) = is_decomposable c.
Proof. rewrite !is_decomposable_unfold, scopes_rename. simpl. apply dec_at_rename. Qed.

(* ---- factorizations ---- *)
Definition rfact (p : list nat * list (list nat)) : list nat * list (list nat) :=
  (rs (fst p), fcanon (map rs (snd p))).

Lemma fcanon_NoDup f : NoDup (fcanon f).
Proof. eapply gsorted_NoDup. apply slex_irrefl. apply fcanon_sorted. Qed.

Lemma in_map_rs_fcanon s ss :
  In s (map rs (fcanon ss)) <-> In s (map rs ss) /\ s <> [].
Proof.
  rewrite !in_map_iff. split.
  - intros [t [E Ht]]. apply fcanon_In in Ht. destruct Ht as [Ht Hne]. split; [eauto|].
    subst s. rewrite rs_eq_nil. assumption.
  - intros [[t [E Ht]] Hne]. exists t. split; auto. apply fcanon_In. split; auto.
    subst s. rewrite rs_eq_nil in Hne. assumption.
Qed.

Lemma fcanon_rs_fcanon ss : fcanon (map rs (fcanon ss)) = fcanon (map rs ss).
Proof. apply fcanon_eq_iff. intros s Hne. rewrite in_map_rs_fcanon. tauto. Qed.

Lemma fcanon_rs_length ss : Forall sorted ss ->
  length (fcanon (map rs ss)) = length (fcanon ss).
Proof.
  intros Hss. rewrite <- (map_length rs (fcanon ss)). apply Permutation_length.
  apply NoDup_Permutation.
  - apply fcanon_NoDup.
  - apply NoDup_map_inj_in; [|apply fcanon_NoDup].
    rewrite Forall_forall in Hss. intros x y Hx Hy. apply fcanon_In in Hx, Hy.
    apply rs_inj; apply Hss; tauto.
  - intros s. rewrite fcanon_In, in_map_rs_fcanon. tauto.
Qed.

Lemma fcanon_rs_inj ss1 ss2 : Forall sorted ss1 -> Forall sorted ss2 ->
  fcanon (map rs ss1) = fcanon (map rs ss2) -> fcanon ss1 = fcanon ss2.
Proof.
  intros H1 H2 H. rewrite Forall_forall in H1, H2. rewrite fcanon_eq_iff in *.
  assert (Hhalf : forall a b, (forall x, In x a -> sorted x) -> (forall x, In x b -> sorted x) ->
            (forall s, s <> [] -> In s (map rs a) -> In s (map rs b)) ->
            forall s, s <> [] -> In s a -> In s b).
  { intros a b Ha Hb Hab s Hne Hs.
    assert (Hin : In (rs s) (map rs b)).
    { apply Hab. rewrite rs_eq_nil; auto. apply in_map; auto. }
    apply in_map_iff in Hin. destruct Hin as [t [E Ht]].
    apply rs_inj in E; auto. subst; auto. }
  intros s Hne. split; apply Hhalf; auto; intros t Ht; apply H; auto.
Qed.

Lemma fact_at_rename sc i l ins : Forall sorted sc ->
  fact_at (map rs sc) (i, (rename_layer l, ins)) = map rfact (fact_at sc (i, (l, ins))).
Proof.
  intros Hsc. simpl. rewrite is_prod_rename. destruct (is_prod l); auto.
  rewrite map_nth_map_rs. set (ss := map (fun j => nth j sc []) ins).
  assert (Hss : Forall sorted ss).
  { rewrite Forall_forall. intros s Hs. apply in_map_iff in Hs. destruct Hs as [j [E _]].
    subst s. apply sorted_nth; auto. }
  rewrite (fcanon_rs_length ss Hss). destruct (1 <? length (fcanon ss)); auto.
  simpl. unfold rfact. simpl. rewrite nth_map_rs, fcanon_rs_fcanon. reflexivity.
Qed.

Lemma flat_fact_at_rename sc ns : Forall sorted sc -> forall s,
  flat_map (fact_at (map rs sc))
           (combine (seq s (length (map rename_node ns))) (map rename_node ns)) =
  map rfact (flat_map (fact_at sc) (combine (seq s (length ns)) ns)).
Proof.
  intros Hsc. induction ns as [|[l ins] ns IH]; intros s; auto.
  change (map rename_node ((l, ins) :: ns)) with ((rename_layer l, ins) :: map rename_node ns).
  cbn [length seq combine flat_map]. rewrite map_app, IH, fact_at_rename by assumption.
  reflexivity.
Qed.

Theorem factorizations_rename c :
  factorizations (rename_circuit c) = map rfact (factorizations c).
Proof.
  rewrite !factorizations_unfold, scopes_rename. simpl.
  apply flat_fact_at_rename. apply scopes_sorted.
Qed.

(* every recorded factorization is a canonical form of sorted scopes *)
Definition good_fact (p : list nat * list (list nat)) : Prop :=
  sorted (fst p) /\ exists ss, Forall sorted ss /\ snd p = fcanon ss.

Lemma factorizations_good c p : In p (factorizations c) -> good_fact p.
Proof.
  destruct p as [S f]. intros H. apply factorizations_In in H.
  destruct H as [i [l [ins [_ [HS [Hf _]]]]]]. subst. split; simpl.
  - apply scopes_nth_sorted.
  - exists (in_scopes c ins). split; auto. apply in_scopes_sorted.
Qed.

Lemma pairs_ok_rfact F : (forall p, In p F -> good_fact p) ->
  pairs_ok (map rfact F) = pairs_ok F.
Proof.
  intros Hgood. apply eq_true_iff_eq. rewrite !pairs_ok_iff. split.
  - intros H S f g Hf Hg.
    destruct (Hgood _ Hf) as [_ [ss1 [Hs1 E1]]]. destruct (Hgood _ Hg) as [_ [ss2 [Hs2 E2]]].
    simpl in E1, E2. subst f g. apply fcanon_rs_inj; auto.
    rewrite <- (fcanon_rs_fcanon ss1), <- (fcanon_rs_fcanon ss2).
    apply (H (rs S)).
    + apply (in_map rfact _ _ Hf).
    + apply (in_map rfact _ _ Hg).
  - intros H s f g Hf Hg. apply in_map_iff in Hf, Hg.
    destruct Hf as [[S1 f1] [E1 Hf]], Hg as [[S2 f2] [E2 Hg]].
    unfold rfact in E1, E2. simpl in E1, E2. inversion E1; inversion E2; subst.
    destruct (Hgood _ Hf) as [Hso1 _]. destruct (Hgood _ Hg) as [Hso2 _]. simpl in Hso1, Hso2.
    assert (S2 = S1) by (apply rs_inj; auto). subst S2.
    rewrite (H S1 f1 f2 Hf Hg). reflexivity.
Qed.

Theorem is_sd_rename c : is_sd (rename_circuit c) = is_sd c.
Proof.
  rewrite !is_sd_unfold, is_smooth_rename, is_decomposable_rename, factorizations_rename.
  rewrite pairs_ok_rfact; auto. apply factorizations_good.
Qed.

Theorem compatible_rename a b :
  compatible (rename_circuit a) (rename_circuit b) = compatible a b.
Proof.
  rewrite !compatible_unfold, !is_smooth_rename, !is_decomposable_rename, !factorizations_rename.
  rewrite <- map_app, pairs_ok_rfact; auto.
  intros p Hp. apply in_app_iff in Hp. destruct Hp; eapply factorizations_good; eauto.
Qed.
End Rename.

(* ================================================================== *)
(* 6'. Completeness: [is_sd] / [compatible] are exactly the set-theoretic notions *)
(* ================================================================== *)
Lemma fcanon_length_two ss : 1 < length (fcanon ss) -> two_nonempty ss.
Proof.
  intros Hlen. pose proof (fcanon_NoDup ss) as Hnd.
  assert (Hin : forall s, In s (fcanon ss) -> In s ss /\ s <> []) by (intros s; apply fcanon_In).
  destruct (fcanon ss) as [|a [|b t]]; simpl in Hlen; try lia.
  assert (Hab : a <> b).
  { inversion Hnd as [|? ? Hna _]; subst. intros E. apply Hna. left; auto. }
  destruct (Hin a) as [Ha Hane]; [simpl; auto|]. destruct (Hin b) as [Hb Hbne]; [simpl; auto|].
  apply (In_nth _ _ []) in Ha, Hb. destruct Ha as [p [Hp Ea]], Hb as [q [Hq Eb]].
  assert (Hpq : p <> q) by (intros E; subst q; congruence).
  destruct (Nat.lt_ge_cases p q) as [Hlt|Hge].
  - exists p, q. rewrite Ea, Eb. auto.
  - exists q, p. rewrite Ea, Eb. repeat split; auto. lia.
Qed.

Definition same_splits (c1 c2 : circuit) : Prop :=
  forall i1 l1 ins1 i2 l2 ins2,
  prod_node c1 i1 l1 ins1 -> prod_node c2 i2 l2 ins2 ->
  set_eq (nth i1 (scopes c1) []) (nth i2 (scopes c2) []) ->
  two_nonempty (in_scopes c1 ins1) -> two_nonempty (in_scopes c2 ins2) ->
  same_split (in_scopes c1 ins1) (in_scopes c2 ins2).

Lemma same_splits_facts c1 c2 S f g : same_splits c1 c2 ->
  In (S, f) (factorizations c1) -> In (S, g) (factorizations c2) -> f = g.
Proof.
  intros H Hf Hg. apply factorizations_In in Hf, Hg.
  destruct Hf as [i1 [l1 [ins1 [Hn1 [HS1 [Hf Hlen1]]]]]].
  destruct Hg as [i2 [l2 [ins2 [Hn2 [HS2 [Hg Hlen2]]]]]].
  subst f g. apply feqb_eq. apply fcanon_canonical; try apply in_scopes_sorted.
  apply (H i1 l1 ins1 i2 l2 ins2); auto using fcanon_length_two.
  rewrite <- HS1, <- HS2. apply set_eq_refl.
Qed.

Theorem is_sd_iff c :
  is_sd c = true <->
  is_smooth c = true /\ is_decomposable c = true /\ same_splits c c.
Proof.
  split.
  - intros H. pose proof (is_sd_sound c H) as Hs.
    rewrite is_sd_unfold, !andb_true_iff in H. unfold same_splits. tauto.
  - intros [Hs [Hd H]]. rewrite is_sd_unfold, Hs, Hd. simpl. apply pairs_ok_iff.
    intros S f g. apply same_splits_facts. assumption.
Qed.

Theorem compatible_iff a b :
  compatible a b = true <->
  is_smooth a = true /\ is_decomposable a = true /\
  is_smooth b = true /\ is_decomposable b = true /\
  same_splits a a /\ same_splits a b /\ same_splits b b.
Proof.
  split.
  - intros H. pose proof (compatible_sound a b H) as Hs.
    rewrite compatible_unfold, !andb_true_iff in H. destruct H as [[[[Hsa Hda] Hsb] Hdb] _].
    do 4 (split; [assumption|]).
    split; [|split]; intros i1 l1 ins1 i2 l2 ins2; apply Hs; auto.
  - intros [Hsa [Hda [Hsb [Hdb [Haa [Hab Hbb]]]]]].
    rewrite compatible_unfold, Hsa, Hda, Hsb, Hdb. simpl. apply pairs_ok_iff.
    intros S f g Hf Hg. rewrite in_app_iff in Hf, Hg. destruct Hf as [Hf|Hf], Hg as [Hg|Hg].
    + apply (same_splits_facts a a S); auto.
    + apply (same_splits_facts a b S); auto.
    + symmetry. apply (same_splits_facts a b S); auto.
    + apply (same_splits_facts b b S); auto.
Qed.

(* ================================================================== *)
(* Non-vacuity: a small circuit on which every notion above is inhabited *)
(* ================================================================== *)
Section Example.
Variable w : pexpr.
(* inputs over x2, x0, x1; two products over {x0,x1,x2} that list the same factors in a
   different order; a sum of the two products *)
Let ex : circuit :=
  mkC [ (LEmb 2 1 2 w, []); (LEmb 0 1 2 w, []); (LEmb 1 1 2 w, []);
        (LHad 1 2, [1; 2]);            (* {x0,x1} *)
        (LHad 1 2, [0; 3]);            (* {x2} * {x0,x1} *)
        (LHad 1 2, [3; 0]);            (* {x0,x1} * {x2} *)
        (LSum 1 1 2 w, [4; 5]) ] [6].
(* the same scope split differently: {x0} * {x1,x2} *)
Let ex_bad : circuit :=
  mkC [ (LEmb 2 1 2 w, []); (LEmb 0 1 2 w, []); (LEmb 1 1 2 w, []);
        (LHad 1 2, [0; 2]); (LHad 1 2, [1; 3]) ] [4].

Example ex_scopes : scopes ex = [[2]; [0]; [1]; [0; 1]; [0; 1; 2]; [0; 1; 2]; [0; 1; 2]].
Proof. reflexivity. Qed.
Example ex_sd : is_sd ex = true.
Proof. reflexivity. Qed.
Example ex_facts : factorizations ex =
  [([0; 1], [[0]; [1]]); ([0; 1; 2], [[0; 1]; [2]]); ([0; 1; 2], [[0; 1]; [2]])].
Proof. reflexivity. Qed.
Example ex_bad_sd : is_sd ex_bad = true.
Proof. reflexivity. Qed.
Example ex_incompatible : compatible ex ex_bad = false.
Proof. reflexivity. Qed.
Example ex_prod_node : prod_node ex 4 (LHad 1 2) [0; 3] /\ two_nonempty (in_scopes ex [0; 3]).
Proof.
  split. split; reflexivity. exists 0, 1. simpl. repeat split; try lia; discriminate.
Qed.
End Example.

(* ================================================================== *)
(* Summary                                                              *)
(* ================================================================== *)
(* 1 *)
Check sinsert_In. Check sinsert_sorted. Check canon_In. Check canon_sorted.
Check sunion_In. Check sunion_sorted. Check sunions_In. Check sunions_sorted.
Check smem_In. Check sinter_In. Check sdiff_In. Check ssubset_iff. Check sdisjoint_iff.
Check seqb_eq. Check sorted_ext. Check seqb_iff.
Print Assumptions sinsert_In. Print Assumptions sinsert_sorted.
Print Assumptions canon_In. Print Assumptions canon_sorted.
Print Assumptions sunion_In. Print Assumptions sunion_sorted.
Print Assumptions sunions_In. Print Assumptions sunions_sorted.
Print Assumptions smem_In. Print Assumptions sinter_In. Print Assumptions sdiff_In.
Print Assumptions ssubset_iff. Print Assumptions sdisjoint_iff.
Print Assumptions seqb_eq. Print Assumptions sorted_ext. Print Assumptions seqb_iff.
(* 2 *)
Check scopes_sorted. Check scopes_nth_sorted. Check scopes_length.
Check scopes_nth. Check scopes_nth_error. Check scopes_nth_wsc.
Print Assumptions scopes_sorted. Print Assumptions scopes_nth_sorted.
Print Assumptions scopes_length. Print Assumptions scopes_nth.
Print Assumptions scopes_nth_error. Print Assumptions scopes_nth_wsc.
(* 3 *)
Check smooth_iff. Check smooth_iff'.
Print Assumptions smooth_iff. Print Assumptions smooth_iff'.
(* 4 *)
Check decomposable_iff. Print Assumptions decomposable_iff.
(* 5 *)
Check compatible_sym. Print Assumptions compatible_sym.
(* 6 *)
Check fcanon_canonical. Check fcanon_eq_iff. Check fcanon_sorted. Check feqb_eq.
Check slex_irrefl. Check slex_trans. Check slex_total.
Check is_sd_sound. Check compatible_sound. Check compatible_is_sd.
Check is_sd_iff. Check compatible_iff.
Print Assumptions fcanon_canonical. Print Assumptions fcanon_eq_iff.
Print Assumptions fcanon_sorted. Print Assumptions feqb_eq.
Print Assumptions slex_irrefl. Print Assumptions slex_trans. Print Assumptions slex_total.
Print Assumptions is_sd_sound. Print Assumptions compatible_sound.
Print Assumptions compatible_is_sd. Print Assumptions is_sd_iff. Print Assumptions compatible_iff.
(* 7 *)
Check scopes_reorder. Check is_smooth_reorder. Check is_decomposable_reorder.
Check factorizations_reorder. Check is_sd_reorder.
Check compatible_reorder_l. Check compatible_reorder_r.
Check scopes_perm_nodes. Check is_smooth_perm_nodes. Check is_decomposable_perm_nodes.
Check factorizations_perm_nodes. Check is_sd_perm_nodes.
Check compatible_perm_nodes_l. Check compatible_perm_nodes_r.
Print Assumptions scopes_reorder. Print Assumptions is_smooth_reorder.
Print Assumptions is_decomposable_reorder. Print Assumptions factorizations_reorder.
Print Assumptions is_sd_reorder. Print Assumptions compatible_reorder_l.
Print Assumptions compatible_reorder_r.
Print Assumptions scopes_perm_nodes. Print Assumptions is_smooth_perm_nodes.
Print Assumptions is_decomposable_perm_nodes. Print Assumptions factorizations_perm_nodes.
Print Assumptions is_sd_perm_nodes. Print Assumptions compatible_perm_nodes_l.
Print Assumptions compatible_perm_nodes_r.
(* 8 *)
Check scopes_rename. Check is_smooth_rename. Check is_decomposable_rename.
Check factorizations_rename. Check is_sd_rename. Check compatible_rename.
Print Assumptions scopes_rename. Print Assumptions is_smooth_rename.
Print Assumptions is_decomposable_rename. Print Assumptions factorizations_rename.
Print Assumptions is_sd_rename. Print Assumptions compatible_rename.
