(* C04 — multiply returns the pointwise product
   Property theorems only: each is closed by `exact <lemma>`; proofs live in the imported files. *)
From Coq Require Import Reals.
From Coquelicot Require Import Coquelicot.
From Coq Require Import List ZArith QArith Qcanon Ring_theory Field_theory Permutation Sorted.
Import ListNotations.
From CK Require Import Base.
From CK Require Import Circ.
From CK Require Import Multiply.
From CK Require Import Scalar.
From CK Require Import Tensor.
From CK Require Import Pexpr.
From CK Require Import Exec.
From CK Require Import Ops.
From CK Require Import Struct.
From CK Require Import OpsProps.
From CK Require Import Link.
From CK Require Import LinkMul.
From CK Require Import InputRules.
Close Scope Qc_scope. Close Scope Q_scope. Close Scope Z_scope. Open Scope nat_scope.

(* every pair node (i,j) of the product circuit evaluates to kron (value of i in c1) (value of j in c2), for all well-scoped circuits with declared unit counts, all inputs, any choice of pairs forced to the Kronecker fallback *)
Theorem C04_multiply :
  forall (R : Type) (rO rI : R) (radd rmul : R -> R -> R),
         semi_ring_theory rO rI radd rmul eq ->
         forall (D : Type) (force : nat -> nat -> bool) (c1 c2 : Circ.circuit R D),
         wfm R rO radd rmul D c1 ->
         wfm R rO radd rmul D c2 ->
         forall (y : Base.asg D) (i j : nat),
         i < length c1 ->
         j < length c2 ->
         nth (pidx R D c1 c2 i j) (eval R rO radd rmul D (multiply R rmul D force c1 c2) y) [] =
         kron R rmul (nth i (eval R rO radd rmul D c1 y) []) (nth j (eval R rO radd rmul D c2 y) []).
Proof. exact multiply_correct. Qed.
Print Assumptions C04_multiply.

(* the outputs of the product circuit are the Kronecker products of the operands' outputs, output (o1,o2) in o1-major order *)
Theorem C04_outputs :
  forall (R : Type) (rO rI : R) (radd rmul : R -> R -> R),
         semi_ring_theory rO rI radd rmul eq ->
         forall (D : Type) (force : nat -> nat -> bool) (c1 c2 : Circ.circuit R D),
         wfm R rO radd rmul D c1 ->
         wfm R rO radd rmul D c2 ->
         forall (outs1 outs2 : list nat) (y : Base.asg D),
         (forall o : nat, In o outs1 -> o < length c1) ->
         (forall o : nat, In o outs2 -> o < length c2) ->
         map (get R (eval R rO radd rmul D (multiply R rmul D force c1 c2) y))
           (outs_prod R D c1 c2 outs1 outs2) =
         flat_map
           (fun o1 : nat =>
            map
              (fun o2 : nat =>
               kron R rmul (get R (eval R rO radd rmul D c1 y) o1) (get R (eval R rO radd rmul D c2 y) o2))
              outs2) outs1.
Proof. exact multiply_outputs. Qed.
Print Assumptions C04_outputs.

(* EXECUTABLE level: for well-formed operands in the fragment (Embedding, Polynomial, constant inputs, sums, Hadamard and Kronecker products, weights ANY parameter expression evaluating to a matrix of the right shape), every product node (i,j) of the circuit returned by multiply_m (model of cirkit.symbolic.functional.multiply with its per-layer rules: outer-product embeddings, coefficient convolution, Kronecker weight with the column permutation sumsum_perm, sorted Hadamard pairing, Kronecker x Kronecker with the permutation layer kron_perm, disjoint-scope Kronecker joins) evaluates to the Kronecker product of the values of node i of a and node j of b, and the operand copies keep their values *)
Theorem C04_multiply_executable :
  forall (a b p : circuit) (y : asg) (va vb : list cvec),
         mfrag a = true ->
         mfrag b = true ->
         wf a = true ->
         wf b = true ->
         multiply_m a b = Ok p ->
         den_all a y = Some va ->
         den_all b y = Some vb ->
         exists vp : list cvec,
           den_all p y = Some vp /\
           (forall i : nat, i < length (nodes a) -> nth i vp [] = nth i va []) /\
           (forall j : nat, j < length (nodes b) -> nth (length (nodes a) + j) vp [] = nth j vb []) /\
           (forall i j k : nat,
            i < length (nodes a) ->
            j < length (nodes b) ->
            nth (i * length (nodes b) + j) (mul_table a b) None = Some k ->
            k < length vp /\ nth k vp [] = vkron (nth i va []) (nth j vb [])) /\
           map (fun o : nat => nth o vp []) (outs p) =
           pairs (fun o1 o2 : nat => vkron (nth o1 va []) (nth o2 vb [])) (outs a) (outs b).
Proof. exact multiply_exec_den. Qed.
Print Assumptions C04_multiply_executable.

(* ... hence the outputs of the product are the Kronecker products of the operands' outputs, output (o1,o2) at o1-major position *)
Theorem C04_multiply_executable_outputs :
  forall (a b p : circuit) (y : asg) (oa ob : list cvec),
         mfrag a = true ->
         mfrag b = true ->
         wf a = true ->
         wf b = true ->
         multiply_m a b = Ok p -> den a y = Some oa -> den b y = Some ob -> den p y = Some (pairs vkron oa ob).
Proof. exact multiply_exec_den_outputs. Qed.
Print Assumptions C04_multiply_executable_outputs.

(* REAL numbers: the Gaussian layer built by multiply_gaussian_layers (GaussianProductMean / GaussianProductStddev / GaussianProductLogPartition, transcribed from the torch nodes, incl. operands that already carry a log-partition) evaluates at x to the product of the two operand layers' values *)
Theorem C04_gaussian_product_rule :
  forall (m1 s1 : R) (lp1 : option R) (m2 s2 : R) (lp2 : option R) (x : R),
         (0 < s1)%R ->
         (0 < s2)%R ->
         gauss_layer (gp_mean m1 s1 m2 s2) (gp_stddev s1 s2) (Some (gp_total_logpart m1 s1 lp1 m2 s2 lp2)) x =
         (gauss_layer m1 s1 lp1 x * gauss_layer m2 s2 lp2 x)%R.
Proof. exact multiply_gaussian_layers_correct. Qed.
Print Assumptions C04_gaussian_product_rule.

(* ... per unit pair (i,j) at flat index i*K2+j *)
Theorem C04_gaussian_product_units :
  forall (l1 l2 : glayer) (i j : nat) (x : R),
         glayer_wf l1 ->
         glayer_wf l2 ->
         i < g_units l1 ->
         j < g_units l2 ->
         glayer_value (multiply_gaussian_layers l1 l2) (i * g_units l2 + j) x =
         (glayer_value l1 i x * glayer_value l2 j x)%R.
Proof. exact multiply_gaussian_layers_units. Qed.
Print Assumptions C04_gaussian_product_units.

(* REAL numbers: the Categorical layer with logits log p1 + log p2 (outer sum of log-probabilities / logits) evaluates to the product of the operand layers' values, any mix of probability / logit parameterisations *)
Theorem C04_categorical_product_rule :
  forall (lg1 : bool) (p1 : nat -> R) (lg2 : bool) (p2 : nat -> R) (s : nat),
         cat_layer true (cat_product_logits lg1 p1 lg2 p2) s = (cat_layer lg1 p1 s * cat_layer lg2 p2 s)%R.
Proof. exact multiply_categorical_layers_correct. Qed.
Print Assumptions C04_categorical_product_rule.

(* ... per unit pair *)
Theorem C04_categorical_product_units :
  forall (K2 : nat) (lg1 : bool) (p1 : nat -> nat -> R) (lg2 : bool) (p2 : nat -> nat -> R)
           (i j s : nat),
         j < K2 ->
         cat_layer true (multiply_categorical_units K2 lg1 p1 lg2 p2 (i * K2 + j)) s =
         (cat_layer lg1 (p1 i) s * cat_layer lg2 (p2 j) s)%R.
Proof. exact multiply_categorical_layers_units. Qed.
Print Assumptions C04_categorical_product_units.

(* N(x;m1,s1) N(x;m2,s2) = exp(logZ) N(x; m, s) with the rule's m, s, logZ *)
Theorem C04_gaussian_density_identity :
  forall m1 s1 m2 s2 x : R,
         (0 < s1)%R ->
         (0 < s2)%R ->
         (gauss m1 s1 x * gauss m2 s2 x)%R =
         (exp (gp_logpart m1 s1 m2 s2) * gauss (gp_mean m1 s1 m2 s2) (gp_stddev s1 s2) x)%R.
Proof. exact gauss_product_density. Qed.
Print Assumptions C04_gaussian_density_identity.
