(* C04 — multiply returns the pointwise product
   Property theorems only: each is closed by `exact <lemma>`; proofs live in the imported files. *)
From Coq Require Import List ZArith QArith Qcanon Ring_theory Field_theory Permutation Sorted.
Import ListNotations.
From CK Require Import Base.
From CK Require Import Circ.
From CK Require Import Multiply.
From CK Require Import Scalar.
From CK Require Import Tensor.
From CK Require Import Pexpr.
From CK Require Import Exec.
From CK Require Import Ops.
From CK Require Import Struct.
From CK Require Import OpsProps.
From CK Require Import Link.
From CK Require Import LinkMul.
Close Scope Qc_scope. Close Scope Q_scope. Close Scope Z_scope. Open Scope nat_scope.

(* every pair node (i,j) of the product circuit evaluates to kron (value of i in c1) (value of j in c2), for all well-scoped circuits with declared unit counts, all inputs, any choice of pairs forced to the Kronecker fallback *)
Theorem C04_multiply :
  forall (R : Type) (rO rI : R) (radd rmul : R -> R -> R),
         semi_ring_theory rO rI radd rmul eq ->
         forall (D : Type) (force : nat -> nat -> bool) (c1 c2 : Circ.circuit R D),
         wfm R rO radd rmul D c1 ->
         wfm R rO radd rmul D c2 ->
         forall (y : Base.asg D) (i j : nat),
         i < length c1 ->
         j < length c2 ->
         nth (pidx R D c1 c2 i j) (eval R rO radd rmul D (multiply R rmul D force c1 c2) y) [] =
         kron R rmul (nth i (eval R rO radd rmul D c1 y) []) (nth j (eval R rO radd rmul D c2 y) []).
Proof. exact multiply_correct. Qed.
Print Assumptions C04_multiply.

(* the outputs of the product circuit are the Kronecker products of the operands' outputs, output (o1,o2) in o1-major order *)
Theorem C04_outputs :
  forall (R : Type) (rO rI : R) (radd rmul : R -> R -> R),
         semi_ring_theory rO rI radd rmul eq ->
         forall (D : Type) (force : nat -> nat -> bool) (c1 c2 : Circ.circuit R D),
         wfm R rO radd rmul D c1 ->
         wfm R rO radd rmul D c2 ->
         forall (outs1 outs2 : list nat) (y : Base.asg D),
         (forall o : nat, In o outs1 -> o < length c1) ->
         (forall o : nat, In o outs2 -> o < length c2) ->
         map (get R (eval R rO radd rmul D (multiply R rmul D force c1 c2) y))
           (outs_prod R D c1 c2 outs1 outs2) =
         flat_map
           (fun o1 : nat =>
            map
              (fun o2 : nat =>
               kron R rmul (get R (eval R rO radd rmul D c1 y) o1) (get R (eval R rO radd rmul D c2 y) o2))
              outs2) outs1.
Proof. exact multiply_outputs. Qed.
Print Assumptions C04_outputs.

(* EXECUTABLE level: for well-formed operands in the fragment (Embedding, Polynomial, constant inputs, sums, Hadamard and Kronecker products, weights ANY parameter expression evaluating to a matrix of the right shape), every product node (i,j) of the circuit returned by multiply_m (model of cirkit.symbolic.functional.multiply with its per-layer rules: outer-product embeddings, coefficient convolution, Kronecker weight with the column permutation sumsum_perm, sorted Hadamard pairing, Kronecker x Kronecker with the permutation layer kron_perm, disjoint-scope Kronecker joins) evaluates to the Kronecker product of the values of node i of a and node j of b, and the operand copies keep their values *)
Theorem C04_multiply_executable :
  forall (a b p : circuit) (y : asg) (va vb : list cvec),
         mfrag a = true ->
         mfrag b = true ->
         wf a = true ->
         wf b = true ->
         multiply_m a b = Ok p ->
         den_all a y = Some va ->
         den_all b y = Some vb ->
         exists vp : list cvec,
           den_all p y = Some vp /\
           (forall i : nat, i < length (nodes a) -> nth i vp [] = nth i va []) /\
           (forall j : nat, j < length (nodes b) -> nth (length (nodes a) + j) vp [] = nth j vb []) /\
           (forall i j k : nat,
            i < length (nodes a) ->
            j < length (nodes b) ->
            nth (i * length (nodes b) + j) (mul_table a b) None = Some k ->
            k < length vp /\ nth k vp [] = vkron (nth i va []) (nth j vb [])) /\
           map (fun o : nat => nth o vp []) (outs p) =
           pairs (fun o1 o2 : nat => vkron (nth o1 va []) (nth o2 vb [])) (outs a) (outs b).
Proof. exact multiply_exec_den. Qed.
Print Assumptions C04_multiply_executable.

(* ... hence the outputs of the product are the Kronecker products of the operands' outputs, output (o1,o2) at o1-major position *)
Theorem C04_multiply_executable_outputs :
  forall (a b p : circuit) (y : asg) (oa ob : list cvec),
         mfrag a = true ->
         mfrag b = true ->
         wf a = true ->
         wf b = true ->
         multiply_m a b = Ok p -> den a y = Some oa -> den b y = Some ob -> den p y = Some (pairs vkron oa ob).
Proof. exact multiply_exec_den_outputs. Qed.
Print Assumptions C04_multiply_executable_outputs.
