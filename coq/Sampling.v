(* Sampling.v — ancestral sampling of a semantic circuit as a finite weighted set of outcomes.
   Every unit of every node gets a weighted list of partial assignments ("outcomes"):
     input   : one outcome per joint value of its scope, weighted by the input function,
     sum     : the mixture of the distributions of the input units, weighted by the row,
     Hadamard: the independent combination of unit k of every input,
     Kronecker: the independent combination of the units given by the mixed-radix digits of k.
   [sampling_law]: the total weight of the outcomes consistent with an assignment y is the value the
   circuit evaluates at y, i.e. the push-forward of the sampler is the circuit's function. *)
From Coq Require Import List Lia Ring Ring_theory Bool Arith.
Import ListNotations.
From CK Require Import Base Circ.

Section Sampling.
Variable R : Type.
Variables (rO rI : R) (radd rmul : R -> R -> R).
Hypothesis Rth : semi_ring_theory rO rI radd rmul (@eq R).
Add Ring Rring : Rth.
Infix "+" := radd. Infix "*" := rmul.
Notation "0" := rO. Notation "1" := rI.
Variable D : Type.
Notation asg := (asg D).
Notation vec := (vec R).
Notation dot := (dot R rO radd rmul).
Notation had := (had R rmul).
Notation kron := (kron R rmul).
Notation vsum := (vsum R rO radd).
Notation dep_on := (dep_on R D).
Notation agree := (agree D).
Notation upd := (upd D).
Notation node := (node R D).
Notation circuit := (circuit R D).
Notation eval := (eval R rO radd rmul D).
Notation eval_node := (eval_node R rO radd rmul D).
Notation scopes := (scopes R D).
Notation units := (units R D).
Notation node_scope := (node_scope R D).
Notation node_units := (node_units R D).
Notation ok := (ok R rO D).
Notation ok_node := (ok_node R rO D).
Notation inp := (inp R D).
Notation NIn := (NIn R D).
Notation NSum := (NSum R D).
Notation NHad := (NHad R D).
Notation NKron := (NKron R D).
Notation iscope := (iscope R D).
Notation iunits := (iunits R D).
Notation ifun := (ifun R D).
Notation get := (get R).
Notation hadn := (hadn R rmul).
Notation kronn := (kronn R rmul).
Notation prodl := (prodl R rI rmul).

(* ---------- the finite domain ---------- *)
Variable eqD : D -> D -> bool.
Hypothesis eqD_spec : forall a b, eqD a b = true <-> a = b.
Variable dom : nat -> list D.
Hypothesis dom_nodup : forall v, NoDup (dom v).
Variable y0 : asg.   (* base assignment the input functions are probed at; irrelevant by [dep_on] *)

(* ---------- outcomes, weighted distributions, mass ---------- *)
Notation outcome := (list (nat * D)).
Notation wdist := (list (R * outcome)).
Definition consistent (o : outcome) (y : asg) : bool := forallb (fun p => eqD (y (fst p)) (snd p)) o.
Definition mass (d : wdist) (y : asg) : R := vsum (map fst (filter (fun p => consistent (snd p) y) d)).
Definition in_domain (y : asg) : Prop := forall v, In (y v) (dom v).

Definition scale_dist (c : R) (d : wdist) : wdist := map (fun p => (c * fst p, snd p)) d.
Definition prod_dist (d1 d2 : wdist) : wdist :=
  flat_map (fun p1 => map (fun p2 => (fst p1 * fst p2, snd p1 ++ snd p2)) d2) d1.
(* independent combination of a list of distributions, folded from the point mass on the empty outcome *)
Definition prodn (l : list wdist) : wdist := fold_right prod_dist [(1, [])] l.
(* mixture: row w against the list of the distributions of the concatenated input units *)
Definition mix (w : vec) (flat : list wdist) : wdist :=
  concat (map (fun p => scale_dist (fst p) (snd p)) (combine w flat)).

(* ---------- mass algebra ---------- *)
Lemma vsum_app a b : vsum (a ++ b) = vsum a + vsum b.
Proof. induction a as [|x a IH]; simpl; [ring | rewrite IH; ring]. Qed.
Lemma mass_nil y : mass [] y = 0.
Proof. reflexivity. Qed.
Lemma mass_cons p d y : mass (p :: d) y = (if consistent (snd p) y then fst p else 0) + mass d y.
Proof. unfold mass. simpl. destruct (consistent (snd p) y); simpl; [reflexivity | ring]. Qed.
Lemma mass_app d1 d2 y : mass (d1 ++ d2) y = mass d1 y + mass d2 y.
Proof. unfold mass. rewrite filter_app, map_app. apply vsum_app. Qed.
Lemma mass_scale c d y : mass (scale_dist c d) y = c * mass d y.
Proof. induction d as [|p d IH]; [unfold mass; simpl; ring|].
  unfold scale_dist in *. simpl map. rewrite !mass_cons, IH. simpl.
  destruct (consistent (snd p) y); ring. Qed.
Lemma consistent_app o1 o2 y : consistent (o1 ++ o2) y = consistent o1 y && consistent o2 y.
Proof. apply forallb_app. Qed.
Lemma mass_prod_row a o1 d2 y :
  mass (map (fun p2 => (a * fst p2, o1 ++ snd p2)) d2) y = (if consistent o1 y then a else 0) * mass d2 y.
Proof. induction d2 as [|p d IH]; [simpl; rewrite mass_nil; ring|].
  simpl map. rewrite !mass_cons, IH. cbn [fst snd]. rewrite consistent_app.
  destruct (consistent o1 y), (consistent (snd p) y); cbn [andb]; ring. Qed.
Lemma mass_prod d1 d2 y : mass (prod_dist d1 d2) y = mass d1 y * mass d2 y.
Proof. unfold prod_dist. induction d1 as [|p d IH]; [simpl; rewrite mass_nil; ring|].
  simpl flat_map. rewrite mass_app, mass_prod_row, IH, mass_cons. ring. Qed.
Lemma mass_prodn l y : mass (prodn l) y = prodl (map (fun d => mass d y) l).
Proof. induction l as [|d l IH]; simpl.
  - unfold mass. simpl. ring.
  - rewrite mass_prod, IH. reflexivity. Qed.
Lemma mass_mix w flat y : mass (mix w flat) y = dot w (map (fun d => mass d y) flat).
Proof. unfold mix. revert flat; induction w as [|a w IH]; intros [|d flat]; simpl; try apply mass_nil.
  rewrite mass_app, mass_scale, IH. reflexivity. Qed.
Lemma nth_map_mass (l : list wdist) y k : nth k (map (fun d => mass d y) l) 0 = mass (nth k l []) y.
Proof. change 0 with ((fun d => mass d y) []). apply map_nth. Qed.

(* ---------- input nodes: enumerate the joint values of the scope ---------- *)
Fixpoint enum (vs : list nat) : list outcome :=
  match vs with
  | [] => [[]]
  | v :: vs' => flat_map (fun x => map (cons (v, x)) (enum vs')) (dom v)
  end.
(* the assignment an outcome denotes on top of the base assignment *)
Definition apply_out (o : outcome) (y : asg) : asg := fold_right (fun p acc => upd acc (fst p) (snd p)) y o.
(* the outcome that y itself induces on the variables vs *)
Definition canon (vs : list nat) (y : asg) : outcome := map (fun v => (v, y v)) vs.
Definition in_dist (i : inp) (k : nat) : wdist :=
  map (fun o => (nth k (ifun i (apply_out o y0)) 0, o)) (enum (iscope i)).

Lemma in_dist_univariate i k v : iscope i = [v] ->
  in_dist i k = map (fun x => (nth k (ifun i (upd y0 v x)) 0, [(v, x)])) (dom v).
Proof. intros E. unfold in_dist. rewrite E. simpl. induction (dom v) as [|x l IH]; simpl; [reflexivity|].
  rewrite IH. reflexivity. Qed.

Lemma mass_map_cons q d y :
  mass (map (fun p => (fst p, q :: snd p)) d) y = if eqD (y (fst q)) (snd q) then mass d y else 0.
Proof. induction d as [|p d IH]; [simpl; rewrite mass_nil; destruct (eqD (y (fst q)) (snd q)); reflexivity|].
  simpl map. rewrite !mass_cons, IH. cbn [fst snd]. unfold consistent at 1. cbn [forallb].
  fold (consistent (snd p) y). destruct (eqD (y (fst q)) (snd q)); cbn [andb]; [reflexivity | ring]. Qed.
Lemma eqD_refl a : eqD a a = true.
Proof. apply eqD_spec. reflexivity. Qed.
Lemma eqD_neq a b : a <> b -> eqD a b = false.
Proof. intros H. destruct (eqD a b) eqn:E; [apply eqD_spec in E; contradiction | reflexivity]. Qed.
Lemma vsum_select_none (G : D -> R) a xs : ~ In a xs -> vsum (map (fun x => if eqD a x then G x else 0) xs) = 0.
Proof. induction xs as [|x xs IH]; intros H; simpl; [reflexivity|].
  rewrite eqD_neq by (intros ->; apply H; simpl; auto). rewrite IH by (intros HH; apply H; simpl; auto). ring. Qed.
Lemma vsum_select (G : D -> R) a xs : NoDup xs -> In a xs -> vsum (map (fun x => if eqD a x then G x else 0) xs) = G a.
Proof. induction 1 as [|x xs Hx Hnd IH]; intros Hin; [destruct Hin|]. simpl.
  destruct Hin as [-> | Hin].
  - rewrite eqD_refl, vsum_select_none by exact Hx. ring.
  - rewrite eqD_neq by (intros ->; contradiction). rewrite IH by exact Hin. ring. Qed.

Lemma mass_enum y : in_domain y -> forall vs (F : outcome -> R),
  mass (map (fun o => (F o, o)) (enum vs)) y = F (canon vs y).
Proof.
  intros Hy. induction vs as [|v vs IH]; intros F.
  - simpl. rewrite mass_cons, mass_nil. simpl. ring.
  - assert (Haux : forall xs, mass (map (fun o => (F o, o)) (flat_map (fun x => map (cons (v, x)) (enum vs)) xs)) y
                    = vsum (map (fun x => if eqD (y v) x then F ((v, x) :: canon vs y) else 0) xs)).
    { induction xs as [|x xs IHx]; [reflexivity|]. simpl flat_map. rewrite map_app, mass_app, IHx. simpl. f_equal.
      rewrite map_map.
      transitivity (mass (map (fun p => (fst p, (v, x) :: snd p)) (map (fun o => (F ((v, x) :: o), o)) (enum vs))) y).
      - rewrite map_map. reflexivity.
      - rewrite mass_map_cons. cbn [fst snd]. rewrite (IH (fun o => F ((v, x) :: o))). reflexivity. }
    simpl enum. rewrite Haux. rewrite (vsum_select (fun x => F ((v, x) :: canon vs y))) by (auto; apply Hy). reflexivity.
Qed.
Lemma apply_canon vs y y' : agree vs (apply_out (canon vs y) y') y.
Proof. induction vs as [|v vs IH]; intros u Hu; [destruct Hu|]. simpl. unfold Base.upd.
  destruct (Nat.eqb_spec u v) as [-> | Hne]; [reflexivity|]. apply IH. destruct Hu; [congruence | assumption]. Qed.
Lemma mass_in_dist i k y : in_domain y -> dep_on (iscope i) (fun y => nth k (ifun i y) 0) ->
  mass (in_dist i k) y = nth k (ifun i y) 0.
Proof. intros Hy Hdep. unfold in_dist.
  rewrite (mass_enum y Hy (iscope i) (fun o => nth k (ifun i (apply_out o y0)) 0)).
  apply Hdep. apply apply_canon. Qed.

(* ---------- the sampler: per node, per unit ---------- *)
Definition ulen (ds : list (list wdist)) (j : nat) : nat := length (nth j ds []).
Definition dist_node (n : node) (ds : list (list wdist)) : list wdist :=
  match n with
  | Circ.NIn _ _ i => map (in_dist i) (seq 0 (iunits i))
  | Circ.NSum _ _ W ins => map (fun w => mix w (concat (map (fun j => nth j ds []) ins))) W
  | Circ.NHad _ _ ins =>
      match ins with
      | [] => []
      | j0 :: _ => map (fun k => prodn (map (fun j => nth k (nth j ds []) []) ins)) (seq 0 (ulen ds j0))
      end
  | Circ.NKron _ _ ins =>
      map (fun k => prodn (map (fun p => nth (snd p) (nth (fst p) ds []) []) (combine ins (kidx (map (ulen ds) ins) k))))
          (seq 0 (fold_right Nat.mul 1%nat (map (ulen ds) ins)))
  end.
Fixpoint dists_from (ns : circuit) (acc : list (list wdist)) : list (list wdist) :=
  match ns with [] => acc | n :: ns' => dists_from ns' (acc ++ [dist_node n acc]) end.
Definition dists (c : circuit) : list (list wdist) := dists_from c [].

Lemma dists_from_app a b acc : dists_from (a ++ b) acc = dists_from b (dists_from a acc).
Proof. revert acc; induction a as [|n a IH]; intros acc; simpl; [reflexivity | apply IH]. Qed.
Lemma dists_snoc pre n : dists (pre ++ [n]) = dists pre ++ [dist_node n (dists pre)].
Proof. unfold dists. rewrite dists_from_app. reflexivity. Qed.
Lemma length_dists c : length (dists c) = length c.
Proof. assert (H : forall acc, length (dists_from c acc) = (length acc + length c)%nat).
  { induction c as [|n c IH]; intros acc; simpl; [lia|]. rewrite IH, app_length. simpl. lia. }
  unfold dists. rewrite H. reflexivity. Qed.
Lemma ds_lt pre n i : i < length pre -> nth i (dists (pre ++ [n])) [] = nth i (dists pre) [].
Proof. intros H. rewrite dists_snoc. apply nth_snoc_lt. rewrite length_dists. exact H. Qed.
Lemma ds_eq pre n : nth (length pre) (dists (pre ++ [n])) [] = dist_node n (dists pre).
Proof. rewrite dists_snoc. rewrite <- (length_dists pre) at 1. apply nth_snoc_eq. Qed.

Lemma map_seq_nth (l : vec) (f : nat -> R) : (forall k, k < length l -> f k = nth k l 0) -> map f (seq 0 (length l)) = l.
Proof. intros H. apply (list_eq_nth0 R rO); [rewrite map_length, seq_length; reflexivity|]. intros k.
  destruct (Nat.lt_ge_cases k (length l)) as [Hlt | Hge].
  - rewrite nth_map_seq by exact Hlt. apply H, Hlt.
  - rewrite !nth_overflow; [reflexivity | exact Hge | rewrite map_length, seq_length; exact Hge]. Qed.

(* ---------- the invariant: unit counts, and the mass vector of every node is its value ---------- *)
Lemma sampling_inv c : ok c -> forall y, in_domain y -> forall o, o < length c ->
  length (nth o (dists c) []) = nth o (units c) 0%nat
  /\ map (fun d => mass d y) (nth o (dists c) []) = nth o (eval c y) [].
Proof.
  induction 1 as [|pre n Hok IH Hn]; intros y Hy o Ho.
  - simpl in Ho. lia.
  - rewrite app_length in Ho. simpl in Ho.
    assert (Hcase : o < length pre \/ o = length pre) by lia. destruct Hcase as [Hlt | ->].
    + rewrite ds_lt, (un_lt R D), (ev_lt R rO radd rmul D) by exact Hlt. apply IH; assumption.
    + rewrite ds_eq, (un_eq R D), (ev_eq R rO radd rmul D).
      assert (IHA : forall j, j < length pre -> ulen (dists pre) j = nth j (units pre) 0%nat).
      { intros j Hj. apply (IH y Hy j Hj). }
      assert (IHB : forall j, j < length pre -> map (fun d => mass d y) (nth j (dists pre) []) = nth j (eval pre y) []).
      { intros j Hj. apply (IH y Hy j Hj). }
      assert (IHL : forall j, j < length pre -> length (nth j (eval pre y) []) = ulen (dists pre) j).
      { intros j Hj. rewrite <- (IHB j Hj). apply map_length. }
      destruct n as [i | W ins | ins | ins]; simpl in Hn.
      * (* input *)
        destruct Hn as [Hlen Hdep]. simpl. split; [rewrite map_length, seq_length; reflexivity|].
        rewrite map_map. rewrite <- (Hlen y). apply map_seq_nth. intros k _. apply mass_in_dist; [exact Hy | apply Hdep].
      * (* sum *)
        destruct Hn as [Hne [Hpos Hsm]]. simpl. split; [apply map_length|].
        rewrite map_map. apply map_ext. intros w. rewrite mass_mix. f_equal.
        rewrite concat_map, map_map. f_equal. apply map_ext_in. intros j Hj. apply IHB, Hpos, Hj.
      * (* hadamard *)
        destruct Hn as [Hne [Hpos [Hun Hdj]]].
        destruct ins as [|j0 ins']; [congruence|].
        assert (Hj0 : j0 < length pre) by (apply Hpos; simpl; auto).
        cbn [dist_node Circ.node_units Circ.eval_node]. split; [rewrite map_length, seq_length; apply IHA, Hj0|].
        assert (HL : length (hadn (map (get (eval pre y)) (j0 :: ins'))) = ulen (dists pre) j0).
        { apply (length_hadn R rmul); [discriminate|]. intros x Hx. apply in_map_iff in Hx. destruct Hx as [j [<- Hj]].
          unfold Circ.get. rewrite IHL by (apply Hpos, Hj). rewrite (IHA j) by (apply Hpos, Hj). rewrite (IHA j0 Hj0). apply Hun, Hj. }
        rewrite map_map. rewrite <- HL. apply map_seq_nth. intros k _.
        rewrite (nth_hadn R rO rI radd rmul Rth) by discriminate. rewrite mass_prodn, !map_map. f_equal.
        apply map_ext_in. intros j Hj. rewrite <- nth_map_mass. unfold Circ.get. f_equal. apply IHB, Hpos, Hj.
      * (* kronecker *)
        destruct Hn as [Hne [Hpos Hdj]].
        cbn [dist_node Circ.node_units Circ.eval_node].
        assert (HU : map (ulen (dists pre)) ins = map (fun j => nth j (units pre) 0%nat) ins).
        { apply map_ext_in. intros j Hj. apply IHA, Hpos, Hj. }
        split; [rewrite map_length, seq_length, HU; reflexivity|].
        assert (HLj : forall j, In j ins -> length (get (eval pre y) j) = ulen (dists pre) j).
        { intros j Hj. unfold Circ.get. apply IHL, Hpos, Hj. }
        rewrite map_map. rewrite <- (length_kronn_map R rmul (get (eval pre y)) (ulen (dists pre)) ins Hne HLj).
        apply map_seq_nth. intros k _.
        rewrite (nth_kronn_map R rO rI radd rmul Rth (get (eval pre y)) (ulen (dists pre)) ins k Hne HLj).
        rewrite mass_prodn, !map_map. f_equal.
        apply map_ext_in. intros [j u] Hp. apply in_combine_l in Hp. cbn [fst snd].
        rewrite <- nth_map_mass. unfold Circ.get. f_equal. apply IHB, Hpos, Hp.
Qed.

Definition univariate (c : circuit) : Prop :=
  forall i, In (NIn i) c -> exists v, iscope i = [v].

(* the general form: no restriction on the input scopes, and every unit index k *)
Theorem sampling_law_gen c : ok c -> forall y, in_domain y -> forall o k, o < length c ->
  mass (nth k (nth o (dists c) []) []) y = nth k (nth o (eval c y) []) 0.
Proof. intros Hok y Hy o k Ho. destruct (sampling_inv c Hok y Hy o Ho) as [_ HB].
  rewrite <- HB. symmetry. apply nth_map_mass. Qed.
Theorem sampling_law c : ok c -> univariate c -> forall y, in_domain y -> forall o k, o < length c ->
  k < nth o (units c) 0%nat ->
  mass (nth k (nth o (dists c) []) []) y = nth k (nth o (eval c y) []) 0.
Proof. intros Hok _ y Hy o k Ho _. apply sampling_law_gen; assumption. Qed.
Lemma length_dists_units c : ok c -> (exists y, in_domain y) -> forall o, o < length c ->
  length (nth o (dists c) []) = nth o (units c) 0%nat.
Proof. intros Hok [y Hy] o Ho. apply (sampling_inv c Hok y Hy o Ho). Qed.

(* ---------- structure of the outcomes ---------- *)
Lemma in_prod_dist p d1 d2 : In p (prod_dist d1 d2) ->
  exists p1 p2, In p1 d1 /\ In p2 d2 /\ fst p = fst p1 * fst p2 /\ snd p = snd p1 ++ snd p2.
Proof. unfold prod_dist. intros H. apply in_flat_map in H. destruct H as [p1 [H1 H]].
  apply in_map_iff in H. destruct H as [p2 [<- H2]]. exists p1, p2. auto. Qed.
Lemma in_mix p w flat : In p (mix w flat) ->
  exists a d p', In d flat /\ In p' d /\ fst p = a * fst p' /\ snd p = snd p'.
Proof. unfold mix. intros H. apply in_concat in H. destruct H as [l [Hl Hp]].
  apply in_map_iff in Hl. destruct Hl as [[a d] [<- Hc]]. apply in_combine_r in Hc.
  unfold scale_dist in Hp. apply in_map_iff in Hp. destruct Hp as [p' [<- Hp']].
  exists a, d, p'. auto. Qed.
Lemma nth_map_mix k W flat : nth k (map (fun w => mix w flat) W) [] = mix (nth k W []) flat.
Proof. change (@nil (R * outcome)) with ((fun w => mix w flat) []). apply map_nth. Qed.
Lemma nth_map_seq_in {A} (f : nat -> list A) L k x : In x (nth k (map f (seq 0 L)) []) -> In x (f k).
Proof. destruct (Nat.lt_ge_cases k L) as [Hlt | Hge].
  - rewrite nth_map_seq by exact Hlt. auto.
  - rewrite nth_overflow by (rewrite map_length, seq_length; exact Hge). intros []. Qed.
Lemma enum_fst vs o : In o (enum vs) -> map fst o = vs.
Proof. revert o; induction vs as [|v vs IH]; intros o H; simpl in H.
  - destruct H as [<- | []]. reflexivity.
  - apply in_flat_map in H. destruct H as [x [_ H]]. apply in_map_iff in H. destruct H as [o' [<- H]].
    simpl. f_equal. apply IH, H. Qed.

(* outcome predicates closed under concatenation hold for every outcome of every circuit *)
Section OutcomeInv.
Variable P : outcome -> Prop.
Hypothesis P_nil : P [].
Hypothesis P_app : forall a b, P a -> P b -> P (a ++ b).
Hypothesis P_enum : forall vs o, In o (enum vs) -> P o.
Lemma prodn_inv l : (forall d, In d l -> forall p, In p d -> P (snd p)) -> forall p, In p (prodn l) -> P (snd p).
Proof. induction l as [|d l IH]; intros H p Hp; simpl in Hp.
  - destruct Hp as [<- | []]. exact P_nil.
  - apply in_prod_dist in Hp. destruct Hp as [p1 [p2 [H1 [H2 [_ ->]]]]].
    apply P_app; [apply (H d); simpl; auto | apply IH; [intros; apply (H d0); simpl; auto | exact H2]]. Qed.
Lemma outcome_inv (c : circuit) : forall o k p, In p (nth k (nth o (dists c) []) []) -> P (snd p).
Proof.
  induction c as [|n pre IH] using rev_ind; intros o k p Hp.
  - simpl in Hp. destruct o, k; destruct Hp.
  - assert (Hall : forall j u q, In q (nth u (nth j (dists pre) []) []) -> P (snd q)) by exact IH.
    destruct (Nat.lt_ge_cases o (length pre)) as [Hlt | Hge]; [rewrite ds_lt in Hp by exact Hlt; exact (IH o k p Hp)|].
    destruct (Nat.eq_dec o (length pre)) as [-> | Hne].
    2:{ rewrite (nth_overflow (dists (pre ++ [n]))) in Hp by (rewrite length_dists, app_length; simpl; lia).
        destruct k; destruct Hp. }
    rewrite ds_eq in Hp. destruct n as [i | W ins | ins | ins]; simpl in Hp.
    + apply nth_map_seq_in in Hp. unfold in_dist in Hp. apply in_map_iff in Hp. destruct Hp as [o' [<- Ho']].
      apply (P_enum _ _ Ho').
    + rewrite nth_map_mix in Hp. apply in_mix in Hp. destruct Hp as [a [d [p' [Hd [Hp' [_ ->]]]]]].
      apply in_concat in Hd. destruct Hd as [l [Hl Hd]]. apply in_map_iff in Hl. destruct Hl as [j [<- Hj]].
      destruct (In_nth _ _ [] Hd) as [u [_ Hu]]. apply (Hall j u). rewrite Hu. exact Hp'.
    + destruct ins as [|j0 ins']; [destruct k; destruct Hp|].
      apply nth_map_seq_in in Hp. revert p Hp. apply prodn_inv. intros d Hd q Hq.
      apply in_map_iff in Hd. destruct Hd as [j [<- Hj]]. apply (Hall j k q Hq).
    + apply nth_map_seq_in in Hp. revert p Hp. apply prodn_inv. intros d Hd q Hq.
      apply in_map_iff in Hd. destruct Hd as [[j u] [<- Hj]]. apply (Hall j u q Hq).
Qed.
End OutcomeInv.

(* SUPPORT: every sampled value lies in the domain of its variable (any circuit) *)
Theorem sampling_support (c : circuit) o k p : In p (nth k (nth o (dists c) []) []) ->
  forall q, In q (snd p) -> In (snd q) (dom (fst q)).
Proof.
  apply (outcome_inv (fun o => forall q, In q o -> In (snd q) (dom (fst q)))).
  - intros q [].
  - intros a b Ha Hb q Hq. apply in_app_or in Hq. destruct Hq; auto.
  - induction vs as [|v vs IH]; intros o' Ho' q Hq; simpl in Ho'.
    + destruct Ho' as [<- | []]. destruct Hq.
    + apply in_flat_map in Ho'. destruct Ho' as [x [Hx Ho']]. apply in_map_iff in Ho'. destruct Ho' as [o'' [<- Ho'']].
      destruct Hq as [<- | Hq]; [exact Hx | exact (IH o'' Ho'' q Hq)].
Qed.

(* COLUMNS: every outcome of a node assigns exactly the variables of the node's scope *)
Lemma prodn_vars_map {A} (g : A -> wdist) (s : A -> list nat) (qs : list A) :
  (forall a, In a qs -> forall p, In p (g a) -> forall v, In v (map fst (snd p)) <-> In v (s a)) ->
  forall p, In p (prodn (map g qs)) -> forall v, In v (map fst (snd p)) <-> In v (concat (map s qs)).
Proof. induction qs as [|a qs IH]; intros H p Hp v; simpl in Hp.
  - destruct Hp as [<- | []]. simpl. tauto.
  - apply in_prod_dist in Hp. destruct Hp as [p1 [p2 [H1 [H2 [_ ->]]]]].
    simpl. rewrite map_app, !in_app_iff.
    rewrite (H a (or_introl eq_refl) p1 H1 v).
    rewrite (IH (fun a' Ha' => H a' (or_intror Ha')) p2 H2 v). tauto. Qed.

Theorem sampling_columns c : ok c -> forall o k, o < length c ->
  forall p, In p (nth k (nth o (dists c) []) []) ->
  forall v, In v (map fst (snd p)) <-> In v (nth o (scopes c) []).
Proof.
  induction 1 as [|pre n Hok IH Hn]; intros o k Ho p Hp v.
  - simpl in Ho. lia.
  - rewrite app_length in Ho. simpl in Ho.
    assert (Hcase : o < length pre \/ o = length pre) by lia. destruct Hcase as [Hlt | ->].
    + rewrite ds_lt in Hp by exact Hlt. rewrite (sc_lt R D) by exact Hlt. apply (IH o k Hlt p Hp).
    + rewrite ds_eq in Hp. rewrite (sc_eq R D).
      destruct n as [i | W ins | ins | ins]; simpl in Hn; cbn [dist_node Circ.node_scope] in *.
      * apply nth_map_seq_in in Hp. unfold in_dist in Hp. apply in_map_iff in Hp. destruct Hp as [o' [<- Ho']].
        cbn [snd]. rewrite (enum_fst _ _ Ho'). tauto.
      * destruct Hn as [Hne [Hpos Hsm]].
        rewrite nth_map_mix in Hp. apply in_mix in Hp. destruct Hp as [a [d [p' [Hd [Hp' [_ ->]]]]]].
        apply in_concat in Hd. destruct Hd as [l [Hl Hd]]. apply in_map_iff in Hl. destruct Hl as [j [<- Hj]].
        destruct (In_nth _ _ [] Hd) as [u [_ Hu]]. rewrite <- Hu in Hp'.
        rewrite (IH j u (Hpos j Hj) p' Hp' v). apply (Hsm j Hj).
      * destruct Hn as [Hne [Hpos _]]. destruct ins as [|j0 ins']; [congruence|].
        apply nth_map_seq_in in Hp. revert p Hp v.
        apply (prodn_vars_map (fun j => nth k (nth j (dists pre) []) []) (fun j => nth j (scopes pre) [])).
        intros j Hj q Hq. apply (IH j k (Hpos j Hj) q Hq).
      * destruct Hn as [Hne [Hpos _]].
        apply nth_map_seq_in in Hp.
        set (qs := combine ins (kidx (map (ulen (dists pre)) ins) k)) in *.
        assert (Efst : map fst qs = ins).
        { apply (map_fst_combine ins). rewrite length_kidx, map_length. reflexivity. }
        rewrite <- Efst at 1. rewrite map_map. revert p Hp v.
        apply (prodn_vars_map (fun q => nth (snd q) (nth (fst q) (dists pre) []) []) (fun q => nth (fst q) (scopes pre) [])).
        intros [j u] Hju q Hq. apply in_combine_l in Hju. apply (IH j u (Hpos j Hju) q Hq).
Qed.
End Sampling.
Check sampling_law_gen.
Print Assumptions sampling_law_gen.
Check sampling_support.
Print Assumptions sampling_support.
Check sampling_columns.
Print Assumptions sampling_columns.
Check sampling_law.
Print Assumptions sampling_law.
