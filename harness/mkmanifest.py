"""Regenerates /verif/MANIFEST.json from the table below (run after adding a property module)."""
import json
import os

VERIF = os.path.dirname(os.path.dirname(os.path.abspath(__file__)))

BASE_NOTE = ("Trusted: Coq 8.16.1 kernel + VM; axioms as printed by Print Assumptions under each theorem of "
             "coq/Props/<id>.v (recorded in the evidence file); hand-written model (coq/*.v) tied to /repo by the "
             "correspondence harness (harness/export.py abstraction function, generators, exact-rational comparison "
             "under rtol 1e-7 / scaled atol 1e-9); fixed-point exp/log/sqrt in coq/Scalar.v used only to run the model; "
             "PyTorch primitives. See DESIGN.md section 7.")

# id -> (technique, level text, extra note)
CLAIMED = {
    "C03": ("Coq theorem C03_integrate (DAG-level, any semiring, any linear functional, input/sum/Hadamard/Kronecker nodes) + "
            "correspondence of integrate_m with cirkit integrate by exact in-Coq evaluation + brute-force/quadrature oracle on compiled circuits",
            "Machine-checked proof on the model for all circuits/parameters/inputs; the tie to the code is a sampled "
            "correspondence (model operator vs implementation operator evaluated exactly inside Coq) plus a direct oracle.",
            "Gaussian integral = 1 is an analytic hypothesis of the continuous instance."),
    "C04": ("Coq theorems C04_multiply / C04_outputs (every pair node of the product circuit = Kronecker product of the operands' values) + "
            "correspondence of multiply_m with cirkit multiply inside Coq + product oracle on compiled circuits",
            "Machine-checked proof on the semantic model for all circuits; sampled correspondence and oracle tie it to the code.",
            "The Kronecker x Kronecker permutation rule and the per-input-layer product rules are checked per instance (correspondence), not proved."),
    "C05": ("Coq theorems C05_differentiate / C05_outputs_sorted against an abstract iterated partial-derivative operator + "
            "correspondence of differentiate_m with cirkit differentiate inside Coq + autograd oracle on compiled circuits",
            "Machine-checked proof on the semantic model (any order through the abstraction); sampled correspondence and oracle tie it to the code.",
            "That PolynomialDifferential computes the k-th formal derivative is checked per instance; torch autograd trusted as oracle."),
    "C06": ("Coq theorems C06_evidence, C06_evidence_scope, C06_concatenate(_nth) + correspondence inside Coq + oracle on compiled circuits under all flags",
            "Machine-checked proof on the semantic model for all circuits and observations; sampled correspondence ties it to the code.", ""),
    "C07": ("Coq theorems C07_conjugate, C07_involutive, C07_real_identity over any semiring endomorphism, instantiated at Gaussian rationals + "
            "correspondence inside Coq with complex parameters + oracle on compiled circuits",
            "Machine-checked proof on the semantic model; sampled correspondence ties it to the code.", ""),
    "C08": ("Coq theorems on the executable predicates (iff-specifications, soundness and completeness, symmetry, invariance under input order "
            "and injective renaming) + exact comparison of the predicates with cirkit's on generated circuits and pairs + set-based oracles",
            "Machine-checked proof that the model predicates meet the definitions; the implementation is compared with them exactly on every generated case.", ""),
}

NOT_YET = {}


def main():
    props = [json.loads(l) for l in open(os.path.join(VERIF, "properties.jsonl"))]
    checks = []
    na = []
    for p in props:
        pid = p["id"]
        if pid in CLAIMED and os.path.exists(os.path.join(VERIF, "harness", "props", f"{pid}.py")):
            tech, text, note = CLAIMED[pid]
            checks.append({
                "property_id": pid,
                "quick_cmd": f"./check {pid} --tier quick",
                "thorough_cmd": f"./check {pid} --tier thorough",
                "evidence_file": f"evidence/{pid}.json",
                "replay_cmd_template": f"./check {pid} --replay {{path}}",
                "engine": "coq-model+correspondence",
                "level_claimed": {"category": "proof", "text": text, "design_ref": f"DESIGN.md section 6 ({pid})"},
                "level_note": BASE_NOTE + (" " + note if note else ""),
                "technique": tech,
            })
        else:
            na.append({"property_id": pid, "reason": NOT_YET.get(pid, "check not built yet in this revision (planned: see DESIGN.md section 6)")})
    man = {
        "version": 1,
        "setup_cmd": "cd coq && coq_makefile -f _CoqProject -o Makefile >/dev/null && timeout 3000 make -j16 >/dev/null 2>&1; cd .. && ./check selftest",
        "hooks": {
            "guard": "CIRKIT_VERIF",
            "enable": "no source hooks: the harness imports /repo directly (PYTHONPATH=/repo) and patches nothing in the source tree",
            "baseline_off_cmd": "cd /repo && /venv/bin/python -m pytest -ra -q -p no:cacheprovider --timeout=900 --continue-on-collection-errors",
            "source_commits": [],
            "add_only": True,
        },
        "engines": [{
            "name": "coq-model+correspondence",
            "path": "coq/ harness/",
            "serves_properties": [c["property_id"] for c in checks],
            "kind_free_text": "Hand-written executable Gallina model with machine-checked theorems (Coq 8.16), tied to /repo on every run by "
                              "a correspondence check that evaluates model and implementation on the same generated inputs inside Coq (vm_compute), "
                              "plus direct oracles on the implementation for the failing-input search.",
        }],
        "checks": checks,
        "not_applicable": na,
        "notes": "All checks rebuild the Coq development incrementally and import cirkit from /repo's working tree.",
    }
    with open(os.path.join(VERIF, "MANIFEST.json"), "w") as f:
        json.dump(man, f, indent=1)
    print(f"{len(checks)} checks, {len(na)} not yet claimed")


if __name__ == "__main__":
    main()
