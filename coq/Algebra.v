(* Algebra.v — the algebraic laws that the per-layer operator rules and the model templates rest on:
   A. polynomial layers (Horner evaluation is a semiring morphism; coefficient convolution = product),
   B. embedding layers (outer product along the unit axis = Kronecker product of the outputs),
   C. sum-layer integration rule (ReduceSum along the state axis),
   D. templates: CP, Tucker, HMM / chain (forward algorithm). *)
From Coq Require Import List Lia Ring Ring_theory Bool Arith.
Import ListNotations.
From CK Require Import Base Circ Multiply.
#[local] Arguments NIn {R D} i.
#[local] Arguments NSum {R D} W ins.
#[local] Arguments NHad {R D} ins.
#[local] Arguments NKron {R D} ins.
#[local] Arguments Build_inp {R D} _ _ _.
#[local] Arguments iscope {R D} _.
#[local] Arguments iunits {R D} _.
#[local] Arguments ifun {R D} _.

Section Algebra.
Variable R : Type.
Variables (rO rI : R) (radd rmul : R -> R -> R).
Hypothesis Rth : semi_ring_theory rO rI radd rmul (@eq R).
Add Ring Rring : Rth.
Infix "+" := radd. Infix "*" := rmul.
Notation "0" := rO. Notation "1" := rI.
Variable D : Type.
Notation asg := (asg D).
Notation vec := (vec R).
Notation dot := (dot R rO radd rmul).
Notation had := (had R rmul).
Notation kron := (kron R rmul).
Notation scale := (scale R rmul).
Notation vadd := (vadd R radd).
Notation vsum := (vsum R rO radd).
Notation conv := (conv R rO radd rmul).
Notation horner := (horner R rO radd rmul).
Notation inp := (inp R D).
Notation node := (node R D).
Notation circuit := (circuit R D).
Notation eval := (eval R rO radd rmul D).
Notation eval_node := (eval_node R rO radd rmul D).
Notation eval_from := (eval_from R rO radd rmul D).
Notation get := (get R).
Notation hadn := (hadn R rmul).
Notation kronn := (kronn R rmul).
Notation prodl := (prodl R rI rmul).

(* ====================================================================== *)
(* generic list helpers                                                    *)
(* ====================================================================== *)
Lemma map_nth_seq {A} (l : list A) (d : A) : map (fun k => nth k l d) (seq 0 (length l)) = l.
Proof. induction l as [|a l IH]; [reflexivity|]. cbn [length seq map nth]. f_equal.
  rewrite <- seq_shift, map_map. exact IH. Qed.
Lemma skipn_skipn' {A} (n m : nat) (l : list A) : skipn n (skipn m l) = skipn (m + n) l.
Proof. revert l; induction m as [|m IH]; intros l; [reflexivity|].
  destruct l as [|a l]; [rewrite !skipn_nil; reflexivity|]. simpl. apply IH. Qed.
Lemma nth_skipn' {A} (n k : nat) (l : list A) (d : A) : nth k (skipn n l) d = nth (n + k) l d.
Proof. revert l; induction n as [|n IH]; intros l; [reflexivity|].
  destruct l as [|a l]; [destruct k; reflexivity|]. simpl. apply IH. Qed.
Lemma last_nth {A} (l : list A) (d : A) : last l d = nth (length l - 1) l d.
Proof. induction l as [|a l IH]; [reflexivity|]. destruct l as [|b l]; [reflexivity|].
  change (last (a :: b :: l) d) with (last (b :: l) d). rewrite IH. simpl.
  rewrite Nat.sub_0_r. reflexivity. Qed.

(* a multiplicative map sends the row-major list of pairwise products to the Kronecker product *)
Lemma map_pairs_kron {X} (F : X -> R) (op : X -> X -> X) (P Q : list X) :
  (forall p q, F (op p q) = F p * F q) ->
  map F (flat_map (fun p => map (op p) Q) P) = kron (map F P) (map F Q).
Proof. intros HF. induction P as [|p0 P IH]; [reflexivity|].
  replace (flat_map (fun p => map (op p) Q) (p0 :: P))
    with (map (op p0) Q ++ flat_map (fun p => map (op p) Q) P) by reflexivity.
  replace (map F (p0 :: P)) with (F p0 :: map F P) by reflexivity.
  rewrite map_app, IH, kron_cons. f_equal.
  unfold Base.scale. rewrite !map_map. apply map_ext. intros q. apply HF. Qed.

(* ====================================================================== *)
(* A. POLYNOMIALS                                                          *)
(* ====================================================================== *)
Lemma conv_cons a (p q : vec) : conv (a :: p) q = vadd (scale a q) (0 :: conv p q).
Proof. reflexivity. Qed.

(* A1 *)
Lemma horner_vadd (p q : vec) x : horner (vadd p q) x = horner p x + horner q x.
Proof. revert q; induction p as [|a p IH]; intros [|b q]; simpl; try ring. rewrite IH. ring. Qed.
Lemma horner_scale c (p : vec) x : horner (scale c p) x = c * horner p x.
Proof. induction p as [|a p IH]; [simpl; ring|].
  change (scale c (a :: p)) with (c * a :: scale c p). cbn [Base.horner]. rewrite IH. ring. Qed.
Lemma horner_shift (p : vec) x : horner (0 :: p) x = x * horner p x.
Proof. simpl. ring. Qed.

(* A2: PolynomialProduct rule *)
Theorem horner_conv (p q : vec) x : horner (conv p q) x = horner p x * horner q x.
Proof. induction p as [|a p IH]; [simpl; ring|].
  rewrite conv_cons, horner_vadd, horner_scale, horner_shift, IH. simpl. ring. Qed.

(* A3: the units of a product of two polynomial layers, in Kronecker order *)
Theorem horner_conv_rows (P Q : list vec) x :
  map (fun r => horner r x) (flat_map (fun p => map (conv p) Q) P)
  = kron (map (fun p => horner p x) P) (map (fun q => horner q x) Q).
Proof. apply map_pairs_kron. intros p q. apply horner_conv. Qed.

(* ====================================================================== *)
(* B. EMBEDDING / OUTER PRODUCT                                            *)
(* ====================================================================== *)
Definition col (s : nat) (M : list vec) : vec := map (fun row => nth s row 0) M.

Theorem col_outer (A B : list vec) (s : nat) :
  col s (flat_map (fun a => map (fun b => had a b) B) A) = kron (col s A) (col s B).
Proof. unfold col. apply (map_pairs_kron (fun row => nth s row 0) (fun a b => had a b)).
  intros a b. apply (nth_had R rO rI radd rmul Rth). Qed.

(* ====================================================================== *)
(* C. SUM-LAYER INTEGRATION RULE                                           *)
(* ====================================================================== *)
Lemma nth_map_vsum (A : list vec) k : nth k (map vsum A) 0 = vsum (nth k A []).
Proof. exact (map_nth vsum A [] k). Qed.

(* summing the lookup table over all states = ReduceSum along the state axis *)
Theorem vsum_states (row : vec) : vsum (map (fun s => nth s row 0) (seq 0 (length row))) = vsum row.
Proof. rewrite map_nth_seq. reflexivity. Qed.

Lemma vadd_map {A} (f g : A -> R) (l : list A) : vadd (map f l) (map g l) = map (fun a => f a + g a) l.
Proof. induction l as [|a l IH]; [reflexivity|]. simpl. rewrite IH. reflexivity. Qed.

(* matrix form: the vector of row sums is the sum of the columns *)
Theorem vsum_rows_cols (N : nat) : forall (A : list vec),
  forall (HA : forall r, In r A -> length r = N),
  map vsum A = fold_right vadd (map (fun _ => 0) A) (map (fun s => col s A) (seq 0 N)).
Proof. induction N as [|N IH]; intros A HA.
  - simpl. apply map_ext_in. intros r Hr. apply HA in Hr. destruct r; [reflexivity | discriminate].
  - cbn [seq map fold_right]. rewrite <- seq_shift, map_map.
    rewrite (map_ext (fun s => col (S s) A) (fun s => col s (map (@tl R) A))).
    2:{ intros s. unfold col. rewrite map_map. apply map_ext. intros r. symmetry. apply nth_tl. }
    assert (HT : forall r, In r (map (@tl R) A) -> length r = N).
    { intros r Hr. apply in_map_iff in Hr. destruct Hr as [r' [<- Hr']]. apply HA in Hr'.
      destruct r'; [discriminate | simpl in *; lia]. }
    pose proof (IH (map (@tl R) A) HT) as E. rewrite !map_map in E.
    transitivity (vadd (col 0 A) (map (fun x : vec => vsum (tl x)) A)).
    + unfold col. rewrite vadd_map. apply map_ext_in. intros r Hr. apply HA in Hr.
      destruct r; [discriminate | reflexivity].
    + f_equal. exact E. Qed.

(* ====================================================================== *)
(* D1. CP                                                                  *)
(* ====================================================================== *)
Lemma dot_nth_sum (w v : vec) : dot w v = vsum (map (fun k => nth k w 0 * nth k v 0) (seq 0 (length w))).
Proof. revert v; induction w as [|a w IH]; intros v; [reflexivity|].
  rewrite (dot_cons R rO rI radd rmul Rth). cbn [length seq map]. rewrite <- seq_shift, map_map.
  cbn [Base.vsum nth]. rewrite IH. f_equal. f_equal. apply map_ext. intros k.
  rewrite nth_tl. reflexivity. Qed.

Theorem cp_dot (r : nat) (w : vec) (xs : list vec) :
  forall (Hne : xs <> []) (Hw : length w = r),
  dot w (hadn xs) = vsum (map (fun k => nth k w 0 * prodl (map (fun a => nth k a 0) xs)) (seq 0 r)).
Proof. intros Hne Hw. rewrite dot_nth_sum, Hw. f_equal. apply map_ext. intros k.
  rewrite (nth_hadn R rO rI radd rmul Rth) by exact Hne. reflexivity. Qed.

Lemma eval_from_inputs (is : list inp) y : forall acc,
  eval_from (map NIn is) y acc = acc ++ map (fun i => ifun i y) is.
Proof. induction is as [|i is IH]; intros acc; simpl; [rewrite app_nil_r; reflexivity|].
  rewrite IH, <- app_assoc. reflexivity. Qed.
Lemma eval_inputs (is : list inp) y : eval (map NIn is) y = map (fun i => ifun i y) is.
Proof. unfold Circ.eval. rewrite eval_from_inputs. reflexivity. Qed.

Definition cp_circuit (is : list inp) (w : vec) : circuit :=
  map NIn is ++ [NHad (seq 0 (length is)); NSum [w] [length is]].

Theorem cp_circuit_correct (is : list inp) (w : vec) (r : nat) y :
  forall (Hne : is <> []) (Hw : length w = r),
  nth 0 (nth (S (length is)) (eval (cp_circuit is w) y) []) 0
  = vsum (map (fun k => nth k w 0 * prodl (map (fun i => nth k (ifun i y) 0) is)) (seq 0 r)).
Proof. intros Hne Hw. unfold cp_circuit, Circ.eval.
  rewrite (eval_from_app R rO radd rmul D), eval_from_inputs. cbn [app].
  set (V := map (fun i => ifun i y) is).
  assert (LV : length V = length is) by (unfold V; apply map_length).
  cbn [Circ.eval_from Circ.eval_node map concat].
  rewrite <- LV. unfold Circ.get at 1.
  replace (S (length V)) with (length (V ++ [hadn (map (Circ.get R V) (seq 0 (length V)))]))
    by (rewrite app_length; simpl; lia).
  rewrite nth_snoc_eq. cbn [map nth].
  unfold Circ.get at 1. rewrite nth_snoc_eq, app_nil_r.
  unfold Circ.get. rewrite map_nth_seq.
  rewrite (cp_dot r) by (try exact Hw; unfold V; intros E; apply map_eq_nil in E; contradiction).
  unfold V. f_equal. apply map_ext. intros k. rewrite map_map. reflexivity. Qed.

(* ====================================================================== *)
(* D2. Tucker                                                              *)
(* ====================================================================== *)
Lemma dot_scale_r c (w v : vec) : dot w (scale c v) = c * dot w v.
Proof. revert v; induction w as [|a w IH]; intros [|b v]; try (simpl; ring).
  change (scale c (b :: v)) with (c * b :: scale c v). cbn [Base.dot]. rewrite IH. ring. Qed.

Theorem dot_kron_cons (g1 g2 : vec) x (a b : vec) :
  forall (Hg1 : length g1 = length b),
  dot (g1 ++ g2) (kron (x :: a) b) = x * dot g1 b + dot g2 (kron a b).
Proof. intros Hg1. rewrite kron_cons, (dot_app R rO rI radd rmul Rth) by (rewrite length_scale; exact Hg1).
  rewrite dot_scale_r. reflexivity. Qed.

Definition block (m : nat) (g : vec) (i : nat) : vec := firstn m (skipn (i * m) g).

Theorem tucker_step (a b : vec) : forall (g : vec),
  forall (Hg : length g = (length a * length b)%nat),
  dot g (kron a b) = vsum (map (fun i => nth i a 0 * dot (block (length b) g i) b) (seq 0 (length a))).
Proof. induction a as [|x a IH]; intros g Hg.
  - destruct g; [reflexivity | discriminate].
  - rewrite <- (firstn_skipn (length b) g) at 1.
    rewrite dot_kron_cons by (apply firstn_length_le; simpl in Hg; lia).
    rewrite IH by (rewrite skipn_length; simpl in Hg; lia).
    cbn [length seq map Base.vsum nth]. rewrite <- seq_shift, map_map. f_equal.
    f_equal. apply map_ext. intros i. unfold block. rewrite skipn_skipn'. reflexivity. Qed.

(* order-2 full contraction:  Σ_i Σ_j g[i*|b|+j] a_i b_j *)
Theorem tucker2 (a b g : vec) : forall (Hg : length g = (length a * length b)%nat),
  dot g (kron a b)
  = vsum (map (fun i => nth i a 0 *
        vsum (map (fun j => nth (i * length b + j) g 0 * nth j b 0) (seq 0 (length b)))) (seq 0 (length a))).
Proof. intros Hg. rewrite tucker_step by exact Hg. f_equal. apply map_ext_in. intros i Hi.
  apply in_seq in Hi. f_equal. rewrite dot_nth_sum.
  assert (LB : length (block (length b) g i) = length b).
  { unfold block. apply firstn_length_le. rewrite skipn_length. nia. }
  rewrite LB. f_equal. apply map_ext_in. intros j Hj. apply in_seq in Hj. f_equal.
  unfold block. rewrite nth_firstn_lt by lia. apply nth_skipn'. Qed.

(* n-ary: peeling the last factor of a left-nested Kronecker product *)
Lemma kronn_snoc (xs : list vec) (b : vec) : xs <> [] -> kronn (xs ++ [b]) = kron (kronn xs) b.
Proof. destruct xs as [|v vs]; [congruence|]. intros _. simpl. rewrite fold_left_app. reflexivity. Qed.

Theorem tucker_kronn (xs : list vec) (b g : vec) :
  forall (Hne : xs <> []) (Hg : length g = (length (kronn xs) * length b)%nat),
  dot g (kronn (xs ++ [b]))
  = vsum (map (fun i => nth i (kronn xs) 0 * dot (block (length b) g i) b) (seq 0 (length (kronn xs)))).
Proof. intros Hne Hg. rewrite kronn_snoc by exact Hne. apply tucker_step. exact Hg. Qed.

(* ====================================================================== *)
(* D3. HMM / chain: the forward algorithm                                  *)
(* ====================================================================== *)
Definition chain_step (W : list vec) (e : vec) (v : vec) : vec := map (fun w => dot w (had v e)) W.
Definition forward (steps : list (list vec * vec)) (v0 : vec) : vec :=
  fold_left (fun v st => chain_step (fst st) (snd st) v) steps v0.

(* [pre] is the circuit built so far, [prev] the index of the node holding the current message *)
Fixpoint hmm_from (steps : list (list vec * inp)) (pre : circuit) (prev : nat) : circuit :=
  match steps with
  | [] => pre
  | (W, e) :: rest =>
      let n := length pre in
      hmm_from rest (pre ++ [NIn e; NHad [prev; n]; NSum W [S n]]) (S (S n))
  end.
Definition hmm_circuit (i0 : inp) (steps : list (list vec * inp)) : circuit := hmm_from steps [NIn i0] 0%nat.
Definition inst (y : asg) (steps : list (list vec * inp)) : list (list vec * vec) :=
  map (fun st => (fst st, ifun (snd st) y)) steps.

Lemma hmm_step_val (pre : circuit) (prev : nat) W e y : forall (Hp : prev < length pre),
  nth (S (S (length pre))) (eval (pre ++ [NIn e; NHad [prev; length pre]; NSum W [S (length pre)]]) y) []
  = chain_step W (ifun e y) (nth prev (eval pre y) []).
Proof. intros Hp. unfold Circ.eval. rewrite (eval_from_app R rO radd rmul D).
  change (Circ.eval_from R rO radd rmul D pre y []) with (eval pre y).
  set (V := eval pre y).
  assert (LV : length V = length pre) by (unfold V; apply (length_eval R rO radd rmul D)).
  rewrite <- LV. cbn [Circ.eval_from Circ.eval_node map concat Circ.hadn fold_left].
  set (V1 := V ++ [ifun e y]).
  assert (L1 : length V1 = S (length V)) by (unfold V1; rewrite app_length; simpl; lia).
  set (h := had (Circ.get R V1 prev) (Circ.get R V1 (length V))).
  set (V2 := V1 ++ [h]).
  assert (L2 : length V2 = S (S (length V))) by (unfold V2; rewrite app_length; simpl; lia).
  rewrite <- L2, nth_snoc_eq. rewrite <- L1. unfold Circ.get at 1. unfold V2 at 1.
  rewrite nth_snoc_eq, app_nil_r. unfold h, Circ.get, V1.
  rewrite nth_snoc_eq, app_nth1 by lia. reflexivity. Qed.

Theorem hmm_from_correct y : forall (steps : list (list vec * inp)) (pre : circuit) (prev : nat),
  forall (Hp : S prev = length pre),
  last (eval (hmm_from steps pre prev) y) [] = forward (inst y steps) (nth prev (eval pre y) []).
Proof. induction steps as [|[W e] rest IH]; intros pre prev Hp.
  - simpl. rewrite last_nth, (length_eval R rO radd rmul D). f_equal. lia.
  - cbn [hmm_from inst map forward fold_left fst snd].
    rewrite IH by (rewrite app_length; simpl; lia).
    rewrite hmm_step_val by lia. reflexivity. Qed.

Theorem hmm_correct (i0 : inp) (steps : list (list vec * inp)) y :
  last (eval (hmm_circuit i0 steps) y) [] = forward (inst y steps) (ifun i0 y).
Proof. unfold hmm_circuit. rewrite hmm_from_correct by reflexivity. reflexivity. Qed.

(* the last node is an NSum (or the initial input when there is no step) and the circuit has 1 + 3 * T nodes *)
Lemma length_hmm_from : forall (steps : list (list vec * inp)) pre prev,
  length (hmm_from steps pre prev) = (length pre + 3 * length steps)%nat.
Proof. induction steps as [|[W e] rest IH]; intros pre prev; simpl; [lia|].
  rewrite IH, app_length. simpl. lia. Qed.

End Algebra.

Check horner_vadd. Check horner_scale. Check horner_shift.
Check horner_conv.
Check horner_conv_rows.
Check col_outer.
Check nth_map_vsum. Check vsum_states. Check vsum_rows_cols.
Check dot_nth_sum. Check cp_dot. Check cp_circuit_correct.
Check dot_kron_cons. Check tucker_step. Check tucker2. Check tucker_kronn.
Check hmm_step_val. Check hmm_from_correct. Check hmm_correct. Check length_hmm_from.
Print Assumptions horner_vadd. Print Assumptions horner_scale. Print Assumptions horner_shift.
Print Assumptions horner_conv.
Print Assumptions horner_conv_rows.
Print Assumptions col_outer.
Print Assumptions nth_map_vsum. Print Assumptions vsum_states. Print Assumptions vsum_rows_cols.
Print Assumptions dot_nth_sum. Print Assumptions cp_dot. Print Assumptions cp_circuit_correct.
Print Assumptions dot_kron_cons. Print Assumptions tucker_step. Print Assumptions tucker2. Print Assumptions tucker_kronn.
Print Assumptions hmm_step_val. Print Assumptions hmm_from_correct. Print Assumptions hmm_correct.
Print Assumptions length_hmm_from.
