From Coq Require Import List.
Theorem C09_placeholder : True. Proof. exact I. Qed.
Print Assumptions C09_placeholder.
