From Coq Require Import List.
Theorem C20_placeholder : True. Proof. exact I. Qed.
Print Assumptions C20_placeholder.
