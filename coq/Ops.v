(* Ops.v — executable model of cirkit.symbolic.functional / operators:
   integrate, evidence, conjugate, concatenate, multiply, differentiate on syntactic circuits.
   Definitions only. *)
From Coq Require Import ZArith QArith Qcanon List Bool Arith Lia.
Import ListNotations.
From CK Require Import Base Scalar Tensor Pexpr Exec.
Close Scope Qc_scope. Close Scope Q_scope. Close Scope Z_scope.
Open Scope nat_scope.

Inductive err := EStruct | EValue | ENotImpl | ERule | EAssert.
Inductive res (X : Type) := Ok (x : X) | Err (e : err).
Arguments Ok {X}. Arguments Err {X}.
Definition rbind {X Y} (r : res X) (f : X -> res Y) : res Y := match r with Ok x => f x | Err e => Err e end.
Notation "'dor' x <- o ; k" := (rbind o (fun x => k)) (at level 200, x name, o at level 100, k at level 200).

Definition rmap_list {X Y} (f : X -> res Y) : list X -> res (list Y) :=
  fix go l := match l with
              | [] => Ok []
              | x :: r => match f x, go r with Ok y, Ok ys => Ok (y :: ys) | Err e, _ => Err e | _, Err e => Err e end
              end.

Definition zeros (K : nat) : tn := of_vec (repeat c0 K).
Definition pconst0 (K : nat) : pexpr := PTen 0 false (zeros K).

(* ---------- integrate ---------- *)
Definition integrate_layer (l : layer) : res layer :=
  match l with
  | LEmb v K N w => Ok (LConst K false (PUn (URSum 1) w))
  | LCat v K N false p => Ok (LConst K true (pconst0 K))
  | LCat v K N true p => Ok (LConst K true (PUn (URLSE 1) p))
  | LGau v K mu sd None => Ok (LConst K true (pconst0 K))
  | LGau v K mu sd (Some lp) => Ok (LConst K true lp)
  | _ => Err ERule
  end.
Definition integrate_m (Z : list nat) (c : circuit) : res circuit :=
  if negb (is_smooth c && is_decomposable c) then Err EStruct
  else if sempty Z then Err EValue
  else if negb (ssubset Z (cscope c)) then Err EValue
  else
    dor ns <- rmap_list (fun n => let '(l, ins) := n in
                 if is_input l && negb (sdisjoint (in_scope l) Z)
                 then dor l' <- integrate_layer l; Ok (l', ins)
                 else Ok (l, ins)) (nodes c);
    Ok (mkC ns (outs c)).

(* ---------- evidence ---------- *)
Definition evidence_m (obs : asg) (c : circuit) : res circuit :=
  let dom := canon (map fst obs) in
  if sempty dom then Err EValue
  else if negb (ssubset dom (cscope c)) then Err EValue
  else
    Ok (mkC (map (fun n => let '(l, ins) := n in
                  match in_scope l with
                  | [v] => if smem v dom then (LEvi l (PTen 0 false (of_vec [lookup v obs])), ins) else (l, ins)
                  | _ => (l, ins)
                  end) (nodes c)) (outs c)).

(* ---------- conjugate ---------- *)
Definition conjugate_layer (l : layer) : res layer :=
  match l with
  | LEmb v K N w => Ok (LEmb v K N (PUn UConj w))
  | LCat v K N lg p => Ok (LCat v K N lg p)
  | LGau v K mu sd lp => Ok (LGau v K mu sd lp)
  | LPoly v K d c => Ok (LPoly v K d (PUn UConj c))
  | LSum Ki Ko ar w => Ok (LSum Ki Ko ar (PUn UConj w))
  | LHad Ki ar => Ok (LHad Ki ar)
  | LKron Ki ar => Ok (LKron Ki ar)
  | _ => Err ERule
  end.
Definition conjugate_m (c : circuit) : res circuit :=
  dor ns <- rmap_list (fun n => let '(l, ins) := n in dor l' <- conjugate_layer l; Ok (l', ins)) (nodes c);
  Ok (mkC ns (outs c)).

(* ---------- concatenate ---------- *)
Definition shift_nodes (k : nat) (ns : list (layer * list nat)) : list (layer * list nat) :=
  map (fun n => (fst n, map (Nat.add k) (snd n))) ns.
Fixpoint concatenate_from (cs : list circuit) (acc : circuit) : circuit :=
  match cs with
  | [] => acc
  | c :: r =>
      let k := length (nodes acc) in
      concatenate_from r (mkC (nodes acc ++ shift_nodes k (nodes c)) (outs acc ++ map (Nat.add k) (outs c)))
  end.
Definition concatenate_m (cs : list circuit) : res circuit := Ok (concatenate_from cs (mkC [] [])).

(* ---------- multiply ---------- *)
Definition log_of (logits : bool) (p : pexpr) : pexpr := if logits then p else PUn ULog p.

Definition multiply_inputs (l1 l2 : layer) : res layer :=
  match l1, l2 with
  | LEmb v1 K1 N1 w1, LEmb v2 K2 N2 w2 =>
      if negb (v1 =? v2) then Err EValue else if negb (N1 =? N2) then Err EValue
      else Ok (LEmb v1 (K1 * K2) N1 (PBin (BOuterProd 0) w1 w2))
  | LCat v1 K1 N1 lg1 p1, LCat v2 K2 N2 lg2 p2 =>
      if negb (v1 =? v2) then Err EValue else if negb (N1 =? N2) then Err EValue
      else Ok (LCat v1 (K1 * K2) N1 true (PBin (BOuterSum 0) (log_of lg1 p1) (log_of lg2 p2)))
  | LGau v1 K1 m1 s1 lp1, LGau v2 K2 m2 s2 lp2 =>
      if negb (v1 =? v2) then Err EValue
      else
        let base := PGLogPart m1 s1 m2 s2 in
        let lp := match lp1, lp2 with
                  | None, None => base
                  | _, _ =>
                      let a := match lp1 with Some e => e | None => pconst0 K1 end in
                      let b := match lp2 with Some e => e | None => pconst0 K2 end in
                      PBin BSum base (PBin (BOuterSum 0) a b)
                  end in
        Ok (LGau v1 (K1 * K2) (PGMean m1 s1 m2 s2) (PBin BGStd s1 s2) (Some lp))
  | LPoly v1 K1 d1 c1, LPoly v2 K2 d2 c2 =>
      if negb (v1 =? v2) then Err EValue
      else Ok (LPoly v1 (K1 * K2) (d1 + d2) (PBin BPolyProd c1 c2))
  | _, _ => Err ERule
  end.

(* permutation matrix of multiply_kronecker_layers: row r = (i_0 j_0 i_1 j_1 ... ) digits in base (K1,K2)
   alternating, column = (i_0 .. i_{a-1} j_0 .. j_{a-1}); entry 1 where they denote the same digits *)
Fixpoint digits (base len n : nat) : list nat :=   (* most significant first *)
  match len with O => [] | Datatypes.S k => (n / Nat.pow base k) mod base :: digits base k n end.
Fixpoint undigits (bases : list nat) (ds : list nat) : nat :=
  match bases, ds with b :: bs, d :: r => d * fold_right Nat.mul 1 bs + undigits bs r | _, _ => 0 end.
Fixpoint interleave {X} (a b : list X) : list X :=
  match a, b with x :: a', y :: b' => x :: y :: interleave a' b' | _, _ => [] end.
Definition kron_perm (K1 K2 ar : nat) : list cvec :=
  let n := Nat.pow (K1 * K2) ar in
  (* row r = (i_0 .. i_{a-1}, j_0 .. j_{a-1}) reads the Kronecker output at the interleaved digits *)
  map (fun r =>
         let is_ := digits K1 ar (r / Nat.pow K2 ar) in
         let js := digits K2 ar (r mod Nat.pow K2 ar) in
         let col := undigits (interleave (repeat K1 ar) (repeat K2 ar)) (interleave is_ js) in
         map (fun c => if c =? col then c1 else c0) (seq 0 n))
      (seq 0 n).

(* column permutation making (W1 kron W2) act on the inputs ordered (h1, h2, k1, k2) *)
Definition sumsum_perm (H1 K1 H2 K2 : nat) : list nat :=
  flat_map (fun h1 => flat_map (fun h2 => flat_map (fun k1 => map (fun k2 =>
     (h1 * K1 + k1) * (H2 * K2) + h2 * K2 + k2) (seq 0 K2)) (seq 0 K1)) (seq 0 H2)) (seq 0 H1).

(* key of Python's `sorted(inputs, key=lambda l: tuple(scope(l)))` for pairwise disjoint scopes: the empty
   scope sorts strictly first, otherwise by least variable; the sort is STABLE (ties keep the listed order) *)
Definition min_of (s : list nat) : nat := match s with [] => 0 | x :: _ => Datatypes.S x end.
Fixpoint insert_by (key : nat -> nat) (j : nat) (l : list nat) : list nat :=
  match l with [] => [j] | x :: r => if key j <=? key x then j :: l else x :: insert_by key j r end.
Definition sort_by (key : nat -> nat) (l : list nat) : list nat := fold_right (insert_by key) [] l.

Record mstate := { mnodes : list (layer * list nat); mtbl : list (option nat) }.

Definition multiply_m (a b : circuit) : res circuit :=
  if negb (seqb (cscope a) (cscope b)) then Err ENotImpl
  else if negb (compatible a b) then Err EStruct
  else
    let na := length (nodes a) in let nb := length (nodes b) in
    let sa := scopes a in let sb := scopes b in
    (* block A: copy of a, block B: copy of b (used by disjoint-scope pairs) *)
    let base := nodes a ++ shift_nodes na (nodes b) in
    let step (st : mstate) (ij : nat * nat) : mstate :=
      let '(i, j) := ij in
      let '(l1, ins1) := nth i (nodes a) (LHad 0 0, []) in
      let '(l2, ins2) := nth j (nodes b) (LHad 0 0, []) in
      let get (p q : nat) := nth (p * nb + q) (mtbl st) None in
      let add (ls : list (layer * list nat)) :=
        {| mnodes := mnodes st ++ ls; mtbl := mtbl st ++ [Some (length (mnodes st) + length ls - 1)] |} in
      let none := {| mnodes := mnodes st; mtbl := mtbl st ++ [None] |} in
      if sdisjoint (nth i sa []) (nth j sb []) then
        if out_units l1 =? out_units l2 then add [(LKron (out_units l1) 2, [i; na + j])] else none
      else if negb (seqb (nth i sa []) (nth j sb [])) then none   (* overlapping but different scopes: refused *)
      else if is_input l1 then
        match multiply_inputs l1 l2 with Ok l => add [(l, [])] | Err _ => none end
      else
        match l1, l2 with
        | LSum Ki1 Ko1 ar1 w1, LSum Ki2 Ko2 ar2 w2 =>
            match omap (fun pq => get (fst pq) (snd pq)) (pairs pair ins1 ins2) with
            | Some cs => add [(LSum (Ki1 * Ki2) (Ko1 * Ko2) (ar1 * ar2)
                         (PUn (UIndex 1 (sumsum_perm ar1 Ki1 ar2 Ki2)) (PBin BKron w1 w2)), cs)]
            | None => none
            end
        | LHad Ki1 ar1, LHad Ki2 ar2 =>
            if length ins1 =? length ins2 then
              let s1 := sort_by (fun p => min_of (nth p sa [])) ins1 in
              let s2 := sort_by (fun q => min_of (nth q sb [])) ins2 in
              match omap (fun pq => get (fst pq) (snd pq)) (combine s1 s2) with
              | Some cs => add [(LHad (Ki1 * Ki2) (Nat.max ar1 ar2), cs)]
              | None => none
              end
            else none
        | LKron Ki1 ar1, LKron Ki2 ar2 =>
            (* the input order of a Kronecker layer fixes its unit order: inputs are paired
               positionally and must already be aligned (same scopes in the same order) *)
            if (length ins1 =? length ins2)
               && forallb (fun pq => seqb (nth (fst pq) sa []) (nth (snd pq) sb [])) (combine ins1 ins2) then
              match omap (fun pq => get (fst pq) (snd pq)) (combine ins1 ins2) with
              | Some cs =>
                  let ar := Nat.max ar1 ar2 in
                  let n := Nat.pow (Ki1 * Ki2) ar in
                  let k := length (mnodes st) in
                  add [(LKron (Ki1 * Ki2) ar, cs);
                       (LSum n n 1 (PTen 0 false (of_mat (kron_perm Ki1 Ki2 ar))), [k])]
              | None => none
              end
            else none
        | _, _ => none
        end in
    let st := fold_left step (pairs pair (seq 0 na) (seq 0 nb)) {| mnodes := base; mtbl := [] |} in
    match omap (fun pq => nth (fst pq * nb + snd pq) (mtbl st) None) (pairs pair (outs a) (outs b)) with
    | Some os => Ok (mkC (mnodes st) os)
    | None => Err ERule
    end.

(* ---------- differentiate ---------- *)
Definition diff_layer (order : nat) (l : layer) : res layer :=
  match l with
  | LPoly v K deg c =>
      let deg' := if order <? deg + 1 then deg - order else 0 in
      Ok (LPoly v K deg' (PUn (UPolyDiff order) c))
  | _ => Err ERule
  end.

(* per node: (list of (variable, index of the block differentiated w.r.t. it), index of the copy) *)
Record dstate := { dnodes : list (layer * list nat); dtbl : list (list (nat * nat) * nat) }.
Fixpoint alookup (v : nat) (l : list (nat * nat)) : option nat :=
  match l with [] => None | (u, x) :: r => if u =? v then Some x else alookup v r end.

Definition differentiate_m (order : nat) (c : circuit) : res circuit :=
  if negb (is_smooth c && is_decomposable c) then Err EStruct
  else if order =? 0 then Err EValue
  else
    let sc := scopes c in
    let step (acc : res dstate) (p : nat * (layer * list nat)) : res dstate :=
      dor st <- acc;
      let '(i, (l, ins)) := p in
      let k := length (dnodes st) in
      let self_of (j : nat) := snd (nth j (dtbl st) ([], 0)) in
      let diffs_of (j : nat) := fst (nth j (dtbl st) ([], 0)) in
      if is_input l then
        dor dl <- diff_layer order l;
        match in_scope l with
        | [v] => Ok {| dnodes := dnodes st ++ [(dl, []); (l, [])]; dtbl := dtbl st ++ [([(v, k)], k + 1)] |}
        | _ => Ok {| dnodes := dnodes st ++ [(l, [])]; dtbl := dtbl st ++ [([], k)] |}
        end
      else
        let vars := nth i sc [] in
        let blocks :=
          if is_sum l then
            map (fun v => omap (fun j => alookup v (diffs_of j)) ins) vars
          else
            map (fun v => omap (fun j => match alookup v (diffs_of j) with
                                         | Some d => Some d
                                         | None => if smem v (nth j sc []) then None else Some (self_of j)
                                         end) ins) vars in
        match omap (fun x => x) blocks with
        | Some bl =>
            let n := length vars in
            Ok {| dnodes := dnodes st ++ map (fun b => (l, b)) bl ++ [(l, map self_of ins)];
                  dtbl := dtbl st ++ [(combine vars (seq k n), k + n)] |}
        | None => Err EAssert
        end in
    dor st <- fold_left step (combine (seq 0 (length (nodes c))) (nodes c)) (Ok {| dnodes := []; dtbl := [] |});
    Ok (mkC (dnodes st)
            (flat_map (fun o => let '(ds, s) := nth o (dtbl st) ([], 0) in map snd ds ++ [s]) (outs c))).
