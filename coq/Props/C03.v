(* C03 — integrate returns exactly the marginal / partition function.
   Property theorems only; proofs live in Integrate.v. *)
From Coq Require Import List Ring_theory.
Import ListNotations.
From CK Require Import Base Circ Integrate.

(* For every commutative semiring R, every family of linear functionals Int (sum over a finite
   domain, or an integral), every well-formed smooth and decomposable circuit [c] (any DAG, any
   arity, vector-valued layers, shared sub-circuits), every variable list Z, node o, unit k and
   assignment y: the integrated circuit evaluates to the iterated functional, over the variables
   of Z in the scope of o, of the original circuit. *)
Theorem C03_integrate :
  forall (R : Type) (rO rI : R) (radd rmul : R -> R -> R),
  semi_ring_theory rO rI radd rmul eq ->
  forall (D : Type) (Int : nat -> (D -> R) -> R),
  (forall v f g, (forall d, f d = g d) -> Int v f = Int v g) ->
  (forall v f g, Int v (fun d => radd (f d) (g d)) = radd (Int v f) (Int v g)) ->
  (forall v c f, Int v (fun d => rmul c (f d)) = rmul c (Int v f)) ->
  forall (Z : list nat) (c : circuit R D), ok R rO D c ->
  forall (o k : nat) (y : asg D), o < length c ->
    nth k (nth o (eval R rO radd rmul D (integrate R rO D Int Z c) y) []) rO
    = IntL R D Int (zs_of Z (nth o (scopes R D c) []))
        (fun y' => nth k (nth o (eval R rO radd rmul D c y') []) rO) y.
Proof. exact integrate_correct. Qed.
Print Assumptions C03_integrate.
