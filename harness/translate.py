"""Fail-closed translator for a fixed list of pure integer expressions of cirkit's source:
Python `ast` -> Gallina over Z. Emits coq/Gen/Shapes.v; coq/GenAgree.v proves each generated
definition equal to the hand-written model function used by the theorems (Init.v).
Anything outside the tiny supported subset raises TranslateError (an obligation break, never a guess)."""
import ast
import os

import common

REPO = common.REPO


class TranslateError(Exception):
    pass


def expr(e, env):
    """env: mapping from source sub-expressions (ast.unparse text) to Coq variable names"""
    txt = ast.unparse(e)
    if txt in env:
        return env[txt]
    if isinstance(e, ast.Constant) and isinstance(e.value, int) and not isinstance(e.value, bool):
        return f"({e.value})"
    if isinstance(e, ast.UnaryOp) and isinstance(e.op, ast.USub):
        return f"(- {expr(e.operand, env)})"
    if isinstance(e, ast.BinOp) and isinstance(e.op, (ast.Add, ast.Sub, ast.Mult)):
        op = {ast.Add: "+", ast.Sub: "-", ast.Mult: "*"}[type(e.op)]
        return f"({expr(e.left, env)} {op} {expr(e.right, env)})"
    if isinstance(e, ast.IfExp):
        return f"(if {cond(e.test, env)} then {expr(e.body, env)} else {expr(e.orelse, env)})"
    raise TranslateError(f"unsupported expression: {txt}")


def cond(e, env):
    if isinstance(e, ast.Compare) and len(e.ops) == 1:
        a, b = expr(e.left, env), expr(e.comparators[0], env)
        op = e.ops[0]
        if isinstance(op, ast.Lt):
            return f"({a} <? {b})"
        if isinstance(op, ast.GtE):
            return f"(negb ({a} <? {b}))"
        if isinstance(op, ast.Gt):
            return f"({b} <? {a})"
        if isinstance(op, ast.LtE):
            return f"(negb ({b} <? {a}))"
    raise TranslateError(f"unsupported condition: {ast.unparse(e)}")


def find_def(tree, path):
    node = tree
    for name in path:
        for ch in ast.walk(node) if node is tree else node.body:
            if isinstance(ch, (ast.FunctionDef, ast.ClassDef)) and ch.name == name:
                node = ch
                break
        else:
            raise TranslateError(f"definition {'.'.join(path)} not found")
    return node


def assign_value(fn, target):
    """value of the first assignment `target = <expr>` in the function body (not nested)"""
    for st in ast.walk(fn):
        if isinstance(st, ast.Assign) and len(st.targets) == 1 and ast.unparse(st.targets[0]) == target:
            return st.value
    raise TranslateError(f"assignment to {target} not found in {fn.name}")


def call_arg(fn, callee, kw=None, pos=None, nth=0):
    """keyword / positional argument of the nth call to `callee` inside fn"""
    k = 0
    for st in ast.walk(fn):
        if isinstance(st, ast.Call) and ast.unparse(st.func) == callee:
            if k == nth:
                if kw is not None:
                    for w in st.keywords:
                        if w.arg == kw:
                            return w.value
                    raise TranslateError(f"keyword {kw} not found in call to {callee}")
                if pos < len(st.args):
                    return st.args[pos]
                raise TranslateError(f"positional argument {pos} not found in call to {callee}")
            k += 1
    raise TranslateError(f"call to {callee} not found in {fn.name}")


def parse(rel):
    return ast.parse(open(os.path.join(REPO, rel)).read())


def generate():
    """returns the text of Gen/Shapes.v"""
    out = ["(* GENERATED on every run by harness/translate.py from /repo's current source. Do not edit. *)",
           "From Coq Require Import ZArith Bool.", "Open Scope Z_scope.", ""]
    # --- initialisers ---
    t = parse("cirkit/backend/torch/rules/initializers.py")
    fn = find_def(t, ["compile_dirichlet_initializer"])
    e = assign_value(fn, "axis")
    out.append(f"Definition gen_compiled_dim (axis : Z) : Z := {expr(e, {'init.axis': 'axis'})}.")
    kwv = call_arg(fn, "functools.partial", kw="dim")
    out.append(f"Definition gen_compiled_dim_passed (axis : Z) : Z := {expr(kwv, {'axis': 'axis'})}.")
    t = parse("cirkit/backend/torch/initializers.py")
    fn = find_def(t, ["dirichlet_"])
    e = assign_value(fn, "dim")
    out.append(f"Definition gen_norm_dim (dim rank : Z) : Z := {expr(e, {'dim': 'dim', 'len(shape)': 'rank'})}.")
    mv = call_arg(fn, "torch.movedim", pos=1)
    out.append(f"Definition gen_movedim_src : Z := {expr(mv, {})}.")
    mv2 = call_arg(fn, "torch.movedim", pos=2)
    out.append(f"Definition gen_movedim_dst (dim : Z) : Z := {expr(mv2, {'dim': 'dim'})}.")
    # fold-wise slice: t[i : i + 1]
    fn = find_def(t, ["foldwise_initializer_"])
    sl = None
    for st in ast.walk(fn):
        if isinstance(st, ast.Call) and ast.unparse(st.func) == "initializer_":
            sl = st.args[0]
    if not (isinstance(sl, ast.Subscript) and isinstance(sl.slice, ast.Slice) and sl.slice.step is None):
        raise TranslateError("foldwise_initializer_ does not apply the initializer to a slice t[a:b]")
    out.append(f"Definition gen_fold_slice_lo (i : Z) : Z := {expr(sl.slice.lower, {'i': 'i'})}.")
    out.append(f"Definition gen_fold_slice_hi (i : Z) : Z := {expr(sl.slice.upper, {'i': 'i'})}.")
    # --- symbolic axis normalisation ---
    t = parse("cirkit/symbolic/parameters.py")
    for cls, shp in (("ReduceParameterOp", "in_shape"), ("EntrywiseReduceParameterOp", "in_shape"), ("IndexParameter", "in_shape"), ("OuterParameterOp", "in_shape1")):
        fn = find_def(t, [cls, "__init__"])
        e = assign_value(fn, "axis")
        out.append(f"Definition gen_sym_axis_{cls} (axis rank : Z) : Z := {expr(e, {'axis': 'axis', f'len({shp})': 'rank'})}.")
    # --- compiled nodes: which torch dim is used ---
    t = parse("cirkit/backend/torch/parameters/nodes.py")
    for cls, callee in (("TorchReduceSumParameter", "torch.sum"), ("TorchReduceProductParameter", "torch.prod"), ("TorchReduceLSEParameter", "torch.logsumexp"),
                        ("TorchSoftmaxParameter", "torch.softmax"), ("TorchLogSoftmaxParameter", "torch.log_softmax")):
        fn = find_def(t, [cls, "forward"])
        e = call_arg(fn, callee, kw="dim")
        out.append(f"Definition gen_fwd_dim_{cls} (dim : Z) : Z := {expr(e, {'self.dim': 'dim'})}.")
    fn = find_def(t, ["TorchIndexParameter", "forward"])
    e = call_arg(fn, "torch.index_select", pos=1)
    out.append(f"Definition gen_fwd_dim_TorchIndexParameter (dim : Z) : Z := {expr(e, {'self.dim': 'dim'})}.")
    for cls in ("TorchOuterProductParameter", "TorchOuterSumParameter"):
        fn = find_def(t, [cls, "forward"])
        e1 = call_arg(fn, "x1.unsqueeze", pos=0)
        e2 = call_arg(fn, "x2.unsqueeze", pos=0)
        out.append(f"Definition gen_outer_unsq1_{cls} (dim : Z) : Z := {expr(e1, {'self.dim': 'dim'})}.")
        out.append(f"Definition gen_outer_unsq2_{cls} (dim : Z) : Z := {expr(e2, {'self.dim': 'dim'})}.")
    for cls in ("TorchReduceParameterOp", "TorchEntrywiseReduceParameterOp", "TorchIndexParameter", "TorchOuterProductParameter", "TorchOuterSumParameter"):
        fn = find_def(t, [cls, "__init__"])
        e = assign_value(fn, "dim")
        shp = "in_shape1" if "Outer" in cls else "in_shape"
        out.append(f"Definition gen_torch_dim_{cls} (dim rank : Z) : Z := {expr(e, {'dim': 'dim', f'len({shp})': 'rank'})}.")
    # --- compilation rules pass the symbolic axis unchanged ---
    t = parse("cirkit/backend/torch/rules/parameters.py")
    for rule, cls in (("compile_reduce_sum_parameter", "TorchReduceSumParameter"), ("compile_reduce_product_parameter", "TorchReduceProductParameter"),
                      ("compile_reduce_lse_parameter", "TorchReduceLSEParameter"), ("compile_softmax_parameter", "TorchSoftmaxParameter"),
                      ("compile_log_softmax_parameter", "TorchLogSoftmaxParameter"), ("compile_index_parameter", "TorchIndexParameter"),
                      ("compile_outer_product_parameter", "TorchOuterProductParameter"), ("compile_outer_sum_parameter", "TorchOuterSumParameter")):
        fn = find_def(t, [rule])
        e = call_arg(fn, cls, kw="dim")
        out.append(f"Definition gen_rule_dim_{rule} (axis : Z) : Z := {expr(e, {'p.axis': 'axis'})}.")
    return "\n".join(out) + "\n"


def run():
    """regenerate Gen/Shapes.v and check GenAgree.v; returns (ok, log)"""
    try:
        txt = generate()
    except (TranslateError, SyntaxError, OSError) as e:
        return False, f"translator: {e}"
    gdir = os.path.join(common.COQ, "Gen")
    os.makedirs(gdir, exist_ok=True)
    path = os.path.join(gdir, "Shapes.v")
    old = open(path).read() if os.path.exists(path) else None
    if old != txt or not os.path.exists(os.path.join(gdir, "Shapes.vo")):
        with open(path, "w") as f:
            f.write(txt)
    lock = os.path.join(common.WORK, "make.lock")
    os.makedirs(common.WORK, exist_ok=True)
    rc, out = common.sh(f"flock {lock} sh -c 'timeout 300 coqc -Q {common.COQ} CK {path} && timeout 300 coqc -Q {common.COQ} CK {common.COQ}/GenAgree.v'", timeout=700)
    return rc == 0 and "Error" not in out, out[-2500:]


if __name__ == "__main__":
    print(generate())
