(* Ctx.v — state machines behind the pipeline context and the compiler registry (C18).
   (1) ContextVar with tokens: entering stores the previous value in the entering object's token, leaving
       restores it; (2) the compiled-circuit registry of one context: memoised compilation of operator
       pipelines, operands first. *)
From Coq Require Import List Lia Bool Arith.
Import ListNotations.

(* C18: context variables with tokens *)
Section Ctx.
(* state: current value of the ContextVar, and per context object its saved token *)
Record st := { cur : nat ; tok : nat -> option nat }.
Definition set_tok (f : nat -> option nat) k v := fun j => if Nat.eqb j k then v else f j.
Inductive ev := Enter (k : nat) | Exit (k : nat).
Definition step (s : st) (e : ev) : option st :=
  match e with
  | Enter k => Some {| cur := k; tok := set_tok (tok s) k (Some (cur s)) |}
  | Exit k => match tok s k with
              | Some old => Some {| cur := old; tok := set_tok (tok s) k None |}
              | None => None            (* assert self._token is not None *)
              end
  end.
Fixpoint run (s : st) (es : list ev) : option st :=
  match es with [] => Some s | e :: r => match step s e with Some s' => run s' r | None => None end end.

(* well-bracketed traces; a context object may be reused sequentially but not re-entered while active *)
Inductive wb : list nat (* active *) -> list ev -> Prop :=
| wb_nil a : wb a []
| wb_block a k body rest : ~ In k a -> wb (k :: a) body -> wb a rest ->
    wb a (Enter k :: body ++ Exit k :: rest).

Lemma run_app s es1 es2 : run s (es1 ++ es2) = match run s es1 with Some s' => run s' es2 | None => None end.
Proof. revert s; induction es1 as [|e r IH]; intros s; simpl; [reflexivity|]. destruct (step s e); auto. Qed.

Definition same_on (a : list nat) (f g : nat -> option nat) := forall j, In j a -> f j = g j.

Theorem wb_restores a es : wb a es -> forall s,
  exists s', run s es = Some s' /\ cur s' = cur s /\ same_on a (tok s') (tok s)
             /\ (forall j, ~ In j a -> tok s j = None -> tok s' j = None).
Proof.
  induction 1 as [a | a k body rest Hk Hb IHb Hr IHr]; intros s.
  - exists s; simpl; repeat split; auto; intros j _; reflexivity.
  - simpl. rewrite run_app.
    set (s1 := {| cur := k; tok := set_tok (tok s) k (Some (cur s)) |}).
    destruct (IHb s1) as [s2 [R2 [C2 [T2 N2]]]]. rewrite R2. simpl.
    assert (Hk2 : tok s2 k = Some (cur s)).
    { rewrite (T2 k) by (simpl; auto). simpl. unfold set_tok. rewrite Nat.eqb_refl. reflexivity. }
    rewrite Hk2.
    set (s3 := {| cur := cur s; tok := set_tok (tok s2) k None |}).
    destruct (IHr s3) as [s4 [R4 [C4 [T4 N4]]]]. exists s4. split; [exact R4|]. split; [rewrite C4; reflexivity|].
    split.
    + intros j Hj. rewrite (T4 j Hj). simpl. unfold set_tok.
      destruct (Nat.eqb_spec j k) as [->|Hne]; [contradiction|].
      rewrite (T2 j) by (simpl; auto). simpl. unfold set_tok. destruct (Nat.eqb_spec j k); [contradiction|reflexivity].
    + intros j Hj Hn. apply N4; [exact Hj|]. simpl. unfold set_tok.
      destruct (Nat.eqb_spec j k) as [->|Hne]; [reflexivity|].
      apply N2; [simpl; intros [E|E]; [congruence|contradiction]|]. simpl. unfold set_tok.
      destruct (Nat.eqb_spec j k); [contradiction|exact Hn].
Qed.
End Ctx.

(* ---------- compiler registry of one context ---------- *)
Section Registry.
(* symbolic circuits are numbered; ops c = operands of circuit c (all smaller than c: pipelines are DAGs) *)
Variable ops : nat -> list nat.
Hypothesis ops_lt : forall c o, In o (ops c) -> o < c.

(* registry = list of compiled symbolic circuits, in compilation order (the compiled object of c is
   identified with its position) *)
Definition reg := list nat.
Definition is_compiled (r : reg) (c : nat) : bool := existsb (Nat.eqb c) r.

(* compile c with fuel: operands first (each at most once), then c itself *)
Fixpoint compile_fuel (fuel : nat) (r : reg) (c : nat) : reg :=
  match fuel with
  | O => r
  | S f => if is_compiled r c then r
           else let r' := fold_left (compile_fuel f) (ops c) r in
                if is_compiled r' c then r' else r' ++ [c]
  end.
Definition compile (r : reg) (c : nat) : reg := compile_fuel (S c) r c.

Lemma is_compiled_In r c : is_compiled r c = true <-> In c r.
Proof. unfold is_compiled. rewrite existsb_exists. split.
  - intros [x [Hx E]]. apply Nat.eqb_eq in E. subst. exact Hx.
  - intros H. exists c. split; [exact H | apply Nat.eqb_refl]. Qed.

Lemma fold_mono (f : reg -> nat -> reg) : (forall r c x, In x r -> In x (f r c)) ->
  forall l r x, In x r -> In x (fold_left f l r).
Proof. intros Hf l. induction l as [|a l IH]; intros r x Hx; simpl; [exact Hx|]. apply IH, Hf, Hx. Qed.

Lemma compile_fuel_mono fuel : forall r c x, In x r -> In x (compile_fuel fuel r c).
Proof.
  induction fuel as [|f IH]; intros r c x Hx; simpl; [exact Hx|].
  destruct (is_compiled r c); [exact Hx|].
  set (r' := fold_left (compile_fuel f) (ops c) r).
  assert (Hr' : In x r') by (apply fold_mono; [apply IH | exact Hx]).
  destruct (is_compiled r' c); [exact Hr' | apply in_or_app; left; exact Hr'].
Qed.

(* every circuit compiled with enough fuel ends up registered *)
Lemma compile_fuel_registers fuel : forall r c, c < fuel -> In c (compile_fuel fuel r c).
Proof.
  induction fuel as [|f IH]; intros r c Hc; [lia|]. simpl.
  destruct (is_compiled r c) eqn:E; [apply is_compiled_In; exact E|].
  set (r' := fold_left (compile_fuel f) (ops c) r).
  destruct (is_compiled r' c) eqn:E'; [apply is_compiled_In; exact E' | apply in_or_app; right; simpl; auto].
Qed.
Theorem compile_registers r c : In c (compile r c).
Proof. apply compile_fuel_registers. lia. Qed.

(* memoisation: compiling a registered circuit changes nothing (the same compiled object is returned) *)
Theorem compile_memo r c : In c r -> compile r c = r.
Proof. intros H. unfold compile. simpl. apply is_compiled_In in H. rewrite H. reflexivity. Qed.
Corollary compile_twice r c : compile (compile r c) c = compile r c.
Proof. apply compile_memo, compile_registers. Qed.

Lemma NoDup_app_snoc (r : reg) c : NoDup r -> ~ In c r -> NoDup (r ++ [c]).
Proof.
  intros Hr Hn. induction r as [|a r IH]; simpl.
  - constructor; [intros []|constructor].
  - inversion Hr as [|? ? Ha Hr']; subst. constructor.
    + intros Hin. apply in_app_or in Hin. destruct Hin as [Hin|[E|[]]]; [contradiction|]. subst. apply Hn. simpl; auto.
    + apply IH; [exact Hr' | intros H; apply Hn; simpl; auto].
Qed.

(* no duplicates: each symbolic circuit has exactly one compiled object, i.e. the association is a bijection *)
Lemma fold_nodup (f : reg -> nat -> reg) : (forall r c, NoDup r -> NoDup (f r c)) ->
  forall l r, NoDup r -> NoDup (fold_left f l r).
Proof. intros Hf l. induction l as [|a l IH]; intros r Hr; simpl; [exact Hr|]. apply IH, Hf, Hr. Qed.
Lemma compile_fuel_nodup fuel : forall r c, NoDup r -> NoDup (compile_fuel fuel r c).
Proof.
  induction fuel as [|f IH]; intros r c Hr; simpl; [exact Hr|].
  destruct (is_compiled r c); [exact Hr|].
  set (r' := fold_left (compile_fuel f) (ops c) r).
  assert (Hr' : NoDup r') by (apply fold_nodup; [apply IH | exact Hr]).
  destruct (is_compiled r' c) eqn:E; [exact Hr'|].
  apply NoDup_app_snoc; [exact Hr'|].
  intros Hin. apply is_compiled_In in Hin. congruence.
Qed.
Theorem compile_nodup r c : NoDup r -> NoDup (compile r c).
Proof. apply compile_fuel_nodup. Qed.

(* operands first: in the registry every circuit appears after all of its operands *)
Definition closed (r : reg) := forall c, In c r -> forall o, In o (ops c) -> In o r.
Definition ordered (r : reg) := forall pre c post, r = pre ++ c :: post -> forall o, In o (ops c) -> In o pre.

Lemma fold_inv (P : reg -> Prop) (f : reg -> nat -> reg) : (forall r c, P r -> P (f r c)) ->
  forall l r, P r -> P (fold_left f l r).
Proof. intros Hf l. induction l as [|a l IH]; intros r Hr; simpl; [exact Hr|]. apply IH, Hf, Hr. Qed.

Lemma fold_registers_all f : forall l r,
  (forall o, In o l -> o < f) ->
  forall o, In o l -> In o (fold_left (compile_fuel f) l r).
Proof.
  intros l. induction l as [|a l IH]; intros r Hl o Ho; simpl in *; [contradiction|].
  destruct Ho as [->|Ho].
  - apply fold_mono; [apply compile_fuel_mono|]. apply compile_fuel_registers. apply Hl. auto.
  - apply IH; auto.
Qed.

Lemma ordered_snoc r c : ordered r -> (forall o, In o (ops c) -> In o r) -> ~ In c r -> ordered (r ++ [c]).
Proof.
  intros Hr Hc Hn pre x post E o Ho.
  destruct post as [|p post'].
  - assert (E' : r ++ [c] = pre ++ [x]) by exact E. apply app_inj_tail in E'. destruct E' as [-> ->]. apply Hc, Ho.
  - assert (Hx : exists post'', r = pre ++ x :: post'').
    { assert (E2 : r ++ [c] = (pre ++ x :: removelast (p :: post')) ++ [last (p :: post') 0]).
      { rewrite E. rewrite <- app_assoc. simpl. f_equal. f_equal.
        change (p :: post') with ([] ++ p :: post'). rewrite (app_removelast_last 0) at 1 by discriminate. reflexivity. }
      apply app_inj_tail in E2. destruct E2 as [E2 _]. eexists. exact E2. }
    destruct Hx as [post'' Hx]. exact (Hr pre x post'' Hx o Ho).
Qed.

Lemma compile_fuel_ordered fuel : forall r c, c < fuel -> ordered r -> ordered (compile_fuel fuel r c).
Proof.
  induction fuel as [|f IH]; intros r c Hc Hr; [lia|]. simpl.
  destruct (is_compiled r c); [exact Hr|].
  set (r' := fold_left (compile_fuel f) (ops c) r).
  assert (Hall : forall o, In o (ops c) -> o < f) by (intros o Ho; specialize (ops_lt c o Ho); lia).
  assert (Hr' : ordered r').
  { unfold r'. clear r'. revert r Hr. generalize (ops c) Hall. intros l. induction l as [|a l IHl]; intros Hl r0 Hr0; simpl; [exact Hr0|].
    apply IHl; [intros; apply Hl; simpl; auto|]. apply IH; [apply Hl; simpl; auto | exact Hr0]. }
  destruct (is_compiled r' c) eqn:E; [exact Hr'|].
  apply ordered_snoc; [exact Hr' | | intros Hin; apply is_compiled_In in Hin; congruence].
  intros o Ho. unfold r'. apply fold_registers_all; auto.
Qed.
Theorem compile_ordered r c : ordered r -> ordered (compile r c).
Proof. apply compile_fuel_ordered. lia. Qed.
End Registry.

(* ---------- executable traces for the correspondence check ---------- *)
Fixpoint trace (s : st) (es : list ev) : list nat :=
  match es with
  | [] => []
  | e :: r => match step s e with Some s' => cur s' :: trace s' r | None => [999] end
  end.
Definition st0 : st := {| cur := 0; tok := fun _ => None |}.
Definition ops_of (tbl : list (list nat)) (c : nat) : list nat := nth c tbl [].
(* registry events of a set of contexts: (context, circuit); observation = circuits newly compiled by the call *)
Fixpoint reg_trace (tbl : list (list nat)) (regs : list (list nat)) (es : list (nat * nat)) : list (list nat) :=
  match es with
  | [] => []
  | (k, c) :: r =>
      let rk := nth k regs [] in
      let rk' := compile (ops_of tbl) rk c in
      skipn (length rk) rk' ::
        reg_trace tbl (firstn k regs ++ rk' :: skipn (S k) regs) r
  end.
