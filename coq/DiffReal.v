(* DiffReal.v — the differentiate operator computes REAL partial derivatives.
   Instance of Differentiate.v with R := the real numbers, D := the real numbers (assignments map variables
   to reals), Dv := Coquelicot's partial derivative along one coordinate, DF := differentiability along every
   coordinate at every point.  This is the only file of the project that imports Reals / Coquelicot; its
   theorems depend on the standard real-number axioms (listed by Print Assumptions at the end). *)
From Coq Require Import List Lia Reals Ring_theory Arith.
From Coquelicot Require Import Coquelicot.
From CK Require Import Base Circ Differentiate.
Import ListNotations.
Local Open Scope R_scope.

Lemma R_srt : semi_ring_theory 0 1 Rplus Rmult (@eq R).
Proof. constructor; intros; ring. Qed.

Notation asgR := (asg R).
Notation updR := (upd R).
Notation evalR := (eval R 0 Rplus Rmult R).
Notation okR := (ok R 0 R).
Notation circuitR := (circuit R R).
Notation inpR := (inp R R).

(* ---------- functional update ---------- *)
Lemma upd_same (y : asgR) v x : updR y v x v = x.
Proof. unfold upd. rewrite Nat.eqb_refl. reflexivity. Qed.
Lemma upd_other (y : asgR) v x u : u <> v -> updR y v x u = y u.
Proof. intros H. unfold upd. apply Nat.eqb_neq in H. rewrite H. reflexivity. Qed.
Lemma dep_on_upd S (g : asgR -> R) v : dep_on R R S g -> ~ In v S -> forall y x, g (updR y v x) = g y.
Proof. intros Hg Hv y x. apply Hg. intros u Hu. apply upd_other. intros ->. contradiction. Qed.

(* ---------- the real partial derivative and the class of differentiable functions ---------- *)
(* partial derivative of f w.r.t. variable v at the assignment y *)
Definition DvR (v : nat) (f : asgR -> R) (y : asgR) : R := Derive (fun x => f (updR y v x)) (y v).
(* f is differentiable along every coordinate at every assignment *)
Definition DFR (f : asgR -> R) : Prop := forall y v, ex_derive (fun x => f (updR y v x)) (y v).

Lemma DFR_ext f g : (forall y, f y = g y) -> DFR f -> DFR g.
Proof. intros H Hf y v. apply (ex_derive_ext (fun x => f (updR y v x))); [intros t; apply H | apply Hf]. Qed.
Lemma DFR_const c : DFR (fun _ => c).
Proof. intros y v. apply @ex_derive_const. Qed.
Lemma DFR_add f g : DFR f -> DFR g -> DFR (fun y => f y + g y).
Proof. intros Hf Hg y v.
  apply (@ex_derive_plus R_AbsRing R_NormedModule (fun x => f (updR y v x)) (fun x => g (updR y v x))); [apply Hf | apply Hg]. Qed.
Lemma DFR_mul f g : DFR f -> DFR g -> DFR (fun y => f y * g y).
Proof. intros Hf Hg y v.
  apply (ex_derive_mult (fun x => f (updR y v x)) (fun x => g (updR y v x))); [apply Hf | apply Hg]. Qed.

Lemma DvR_ext v f g : (forall y, f y = g y) -> forall y, DvR v f y = DvR v g y.
Proof. intros H y. unfold DvR. apply Derive_ext. intros t. apply H. Qed.
Lemma DvR_add v f g y : DFR f -> DFR g -> DvR v (fun y => f y + g y) y = DvR v f y + DvR v g y.
Proof. intros Hf Hg. unfold DvR.
  apply (Derive_plus (fun x => f (updR y v x)) (fun x => g (updR y v x))); [apply Hf | apply Hg]. Qed.
Lemma DvR_scal v c f y : DFR f -> DvR v (fun y => c * f y) y = c * DvR v f y.
Proof. intros _. unfold DvR. apply (Derive_scal (fun x => f (updR y v x))). Qed.
Lemma DvR_indep_mul v S g f : dep_on R R S g -> ~ In v S -> DFR f ->
  forall y, DvR v (fun y => g y * f y) y = g y * DvR v f y.
Proof. intros Hg Hv _ y. unfold DvR.
  rewrite (Derive_ext _ (fun x => g y * f (updR y v x))) by (intros t; rewrite (dep_on_upd S g v Hg Hv); reflexivity).
  apply (Derive_scal (fun x => f (updR y v x))). Qed.
Lemma DvR_indep v S f : dep_on R R S f -> ~ In v S -> forall y, DvR v f y = 0.
Proof. intros Hf Hv y. unfold DvR.
  rewrite (Derive_ext _ (fun _ => f y)) by (intros t; apply (dep_on_upd S f v Hf Hv)).
  apply Derive_const. Qed.

(* ---------- the closed theorem ---------- *)
(* the differentiated circuit over the reals: derivative input nodes carry the real partial derivatives
   (DvR) of the original input functions *)
Definition differentiateR (vars : list nat) (c : circuitR) : circuitR := differentiate R 0 R DvR vars c.
(* every unit of every input function is differentiable along every coordinate at every assignment *)
Definition inputs_differentiable (c : circuitR) : Prop :=
  forall a, In (NIn R R a) c -> forall k y v, ex_derive (fun x => nth k (ifun R R a (updR y v x)) 0) (y v).
Lemma inputs_differentiable_DF c : inputs_differentiable c -> inputs_DF R 0 R DFR c.
Proof. intros H a Ha k y v. apply (H a Ha k y v). Qed.

(* the copy blocks evaluate to the original nodes *)
Theorem differentiate_real_copy vars c : okR c -> inputs_differentiable c -> forall y i, (i < length c)%nat ->
  nth (cidx (length vars) i) (evalR (differentiateR vars c) y) [] = nth i (evalR c y) [].
Proof.
  intros Hok HI y i Hi.
  apply (differentiate_correct R 0 1 Rplus Rmult R_srt R DFR DFR_ext DFR_const DFR_add DFR_mul DvR
           DvR_ext DvR_add DvR_scal DvR_indep_mul DvR_indep vars c Hok (inputs_differentiable_DF c HI) y i Hi).
Qed.

(* block (i,t) evaluates to the real partial derivative, w.r.t. variable nth t vars, of node i *)
Theorem differentiate_real vars c : okR c -> inputs_differentiable c -> forall y i, (i < length c)%nat ->
  forall t, (t < length vars)%nat -> forall k,
  nth k (nth (didx (length vars) i t) (evalR (differentiateR vars c) y) []) 0
  = Derive (fun x => nth k (nth i (evalR c (updR y (nth t vars 0%nat) x)) []) 0) (y (nth t vars 0%nat)).
Proof.
  intros Hok HI y i Hi t Ht k.
  apply (differentiate_correct R 0 1 Rplus Rmult R_srt R DFR DFR_ext DFR_const DFR_add DFR_mul DvR
           DvR_ext DvR_add DvR_scal DvR_indep_mul DvR_indep vars c Hok (inputs_differentiable_DF c HI) y i Hi).
  exact Ht.
Qed.

(* every unit of every node is differentiable along every coordinate *)
Theorem eval_differentiable c : okR c -> inputs_differentiable c -> forall i, (i < length c)%nat ->
  forall k y v, ex_derive (fun x => nth k (nth i (evalR c (updR y v x)) []) 0) (y v).
Proof.
  intros Hok HI i Hi k y v.
  apply (ok_ADF R 0 1 Rplus Rmult R_srt R DFR DFR_ext DFR_const DFR_add DFR_mul c Hok (inputs_differentiable_DF c HI) i Hi k y v).
Qed.

(* hence the block IS the derivative (existence included), not merely equal to Coquelicot's total Derive *)
Theorem differentiate_real_is_derive vars c : okR c -> inputs_differentiable c -> forall y i, (i < length c)%nat ->
  forall t, (t < length vars)%nat -> forall k,
  is_derive (fun x => nth k (nth i (evalR c (updR y (nth t vars 0%nat) x)) []) 0) (y (nth t vars 0%nat))
            (nth k (nth (didx (length vars) i t) (evalR (differentiateR vars c) y) []) 0).
Proof.
  intros Hok HI y i Hi t Ht k. rewrite (differentiate_real vars c Hok HI y i Hi t Ht k).
  apply Derive_correct. apply (eval_differentiable c Hok HI i Hi k y (nth t vars 0%nat)).
Qed.

(* the outputs attached to output o: real partial derivatives w.r.t. the variables of its scope in the order of
   vars, then o itself *)
Theorem differentiate_real_outputs vars c o : okR c -> inputs_differentiable c -> (o < length c)%nat ->
  forall y k,
     map (fun idx => nth k (nth idx (evalR (differentiateR vars c) y) []) 0) (outs R R vars c o)
     = map (fun v => Derive (fun x => nth k (nth o (evalR c (updR y v x)) []) 0) (y v)) (dvars vars (nth o (scopes R R c) []))
       ++ [nth k (nth o (evalR c y) []) 0].
Proof.
  intros Hok HI Ho.
  apply (differentiate_outputs R 0 1 Rplus Rmult R_srt R DFR DFR_ext DFR_const DFR_add DFR_mul DvR
           DvR_ext DvR_add DvR_scal DvR_indep_mul DvR_indep vars c o Hok (inputs_differentiable_DF c HI) Ho).
Qed.

(* ---------- non-vacuity: polynomial input functions ---------- *)
Definition poly_inp (v : nat) (a0 a1 a2 : R) : inpR :=
  {| iscope := [v]; iunits := 1; ifun := fun y => [a0 + a1 * y v + a2 * (y v) ^ 2] |}.

Lemma poly_ok_node v a0 a1 a2 pos us sc : ok_node R 0 R pos us sc (NIn R R (poly_inp v a0 a1 a2)).
Proof.
  simpl. split; [reflexivity|]. intros k y y' Ha. rewrite (Ha v) by (simpl; auto). reflexivity.
Qed.

Lemma poly_is_derive v a0 a1 a2 (y : asgR) :
  is_derive (fun x => a0 + a1 * updR y v x v + a2 * (updR y v x v) ^ 2) (y v) (a1 + 2 * a2 * y v).
Proof.
  apply (is_derive_ext (fun x => a0 + a1 * x + a2 * x ^ 2)); [intros t; rewrite upd_same; reflexivity|].
  auto_derive; [exact I | ring].
Qed.

Lemma poly_differentiable v a0 a1 a2 k (y : asgR) w :
  ex_derive (fun x => nth k (ifun R R (poly_inp v a0 a1 a2) (updR y w x)) 0) (y w).
Proof.
  destruct k as [|k].
  - simpl. destruct (Nat.eq_dec v w) as [<-|Hne].
    + exists (a1 + 2 * a2 * y v). apply poly_is_derive.
    + apply (ex_derive_ext (fun _ => a0 + a1 * y v + a2 * (y v * (y v * 1)))); [|apply @ex_derive_const].
      intros t. rewrite upd_other by exact Hne. reflexivity.
  - apply (ex_derive_ext (fun _ => 0)); [|apply @ex_derive_const]. intros t. simpl. destruct k; reflexivity.
Qed.

(* the derivative input node of a polynomial input evaluates to a1 + 2 a2 y_v *)
Lemma poly_DvR v a0 a1 a2 y :
  DvR v (fun y' => nth 0 (ifun R R (poly_inp v a0 a1 a2) y') 0) y = a1 + 2 * a2 * y v.
Proof. unfold DvR. apply is_derive_unique. apply poly_is_derive. Qed.

(* a concrete circuit: p(y0) , q(y1) , p(y0) * q(y1) *)
Section Example.
Variables a0 a1 a2 b0 b1 b2 : R.
Definition ex_circ : circuitR := [NIn R R (poly_inp 0 a0 a1 a2); NIn R R (poly_inp 1 b0 b1 b2); NHad R R [0%nat; 1%nat]].

Lemma ex_ok : okR ex_circ.
Proof.
  change ex_circ with ((([] ++ [NIn R R (poly_inp 0 a0 a1 a2)]) ++ [NIn R R (poly_inp 1 b0 b1 b2)]) ++ [NHad R R [0%nat; 1%nat]]).
  apply ok_snoc; [apply ok_snoc; [apply ok_snoc; [apply ok_nil|]|]|]; try apply poly_ok_node.
  simpl. split; [discriminate|]. split; [intros j [<-|[<-|[]]]; lia|]. split; [intros j [<-|[<-|[]]]; reflexivity|].
  split; [|split; [intros t []|exact I]].
  intros t [<-|[]] u [<-|[]] [E|[]]. discriminate.
Qed.

Lemma ex_inputs : inputs_differentiable ex_circ.
Proof.
  intros a [E|[E|[E|[]]]]; try discriminate; injection E as <-; intros k y v; apply poly_differentiable.
Qed.

(* d/dy0 of the product node (node 2, variable index 0 of vars = [0;1]) *)
Example ex_derivative (y : asgR) :
  nth 0 (nth (didx 2 2 0) (evalR (differentiateR [0%nat; 1%nat] ex_circ) y) []) 0
  = (a1 + 2 * a2 * y 0%nat) * (b0 + b1 * y 1%nat + b2 * (y 1%nat) ^ 2).
Proof.
  etransitivity;
    [exact (differentiate_real [0%nat; 1%nat] ex_circ ex_ok ex_inputs y 2%nat (Nat.lt_succ_diag_r 2) 0%nat Nat.lt_0_2 0%nat)|].
  apply is_derive_unique. simpl nth.
  apply (is_derive_ext (fun x => (a0 + a1 * x + a2 * x ^ 2) * (b0 + b1 * y 1%nat + b2 * y 1%nat ^ 2))).
  { intros t. cbn. reflexivity. }
  auto_derive; [exact I | ring].
Qed.
End Example.

Check differentiate_real.
Print Assumptions differentiate_real.
Check differentiate_real_is_derive.
Print Assumptions differentiate_real_is_derive.
Check differentiate_real_outputs.
Print Assumptions differentiate_real_outputs.
Check ex_derivative.
Print Assumptions ex_derivative.
