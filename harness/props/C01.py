"""C01 — the compiled circuit computes the function its symbolic circuit denotes."""
import traceback

import numpy as np
import torch

import evalc
import export
import gen
from cases import CaseSet, rng_for, pick_semiring, close

PID = "C01"
KINDS = ["emb", "cat_probs", "cat_logits", "cat_softmax", "cat_softmax0", "bin", "gau", "poly"]


def num_folds(cc):
    return max(l.num_folds for l in cc.layers)


def one_case(rep, cs, seed, i):
    rng = rng_for(seed, PID, i)
    monotone = rng.random() < 0.5
    cplx = (not monotone) and rng.random() < 0.15
    kinds = ["emb", "poly"] if cplx else KINDS
    if rng.random() < 0.2:
        kinds = [rng.choice(kinds)]
    o = gen.random_opts(rng, kinds=kinds, monotone=monotone, cplx=cplx)
    sc, g = gen.gen_circuit(rng, **o)
    sem = pick_semiring(rng, monotone, cplx)
    fold, opt = rng.choice(evalc.FLAGS)
    desc = {"i": i, "seed": seed, "sem": sem, "fold": fold, "opt": opt, **g.desc}
    rep.count("semiring:" + sem)
    rep.count(f"flags:{int(fold)}{int(opt)}")
    rep.count("varset:" + o["varset"])
    rep.count(f"nout:{g.desc['nout']}")
    for kd in set(g.desc["kinds"]):
        rep.count("kind:" + kd)
    for a in g.desc["arity"]:
        rep.count(f"sum-arity:{a}")
    scope = sorted(sc.scope._set)
    nonneg = sem == "lse-sum"
    try:
        ctx = evalc.make_ctx(sem, fold, opt)
        cc = ctx.compile(sc)
        F = num_folds(cc)
        sizes = sorted({1, 2, 3, F, F + 1})
        B = rng.choice(sizes) if rng.random() < 0.5 else F
        rep.count(f"batch==folds:{int(B == F)}")
        ys = gen.sample_inputs(rng, g.doms, scope, B, exhaustive_limit=0, nonneg=nonneg)[:B]
        while len(ys) < B:
            ys.append(dict(ys[-1]))
        w = evalc.width_of(sc)
        out = evalc.evaluate(cc, sc, ys, sem, width=w)
        nout, K = len(sc.outputs), sc.outputs[0].num_output_units
        if out.shape != (B, nout, K):
            rep.violation("output-shape", "compiled output does not have shape (batch, outputs, units)",
                          {"case": desc, "observed": list(out.shape), "expected": [B, nout, K], "batch": B})
            return
        # each row depends only on its own input row
        rows = np.concatenate([evalc.evaluate(cc, sc, [y], sem, width=w) for y in ys], axis=0)
        if not close(out, rows, rtol=1e-9, atol=1e-11):
            rep.violation("row-dependence", "a row of the batched output differs from evaluating that row alone",
                          {"case": desc, "inputs": ys, "observed": out.tolist(), "expected": rows.tolist()})
        # integer-typed inputs give the same result for discrete circuits
        if all(g.doms[v][0] == "disc" for v in scope) and scope:
            outi = evalc.evaluate(cc, sc, ys, sem, width=w, int_inputs=True)
            if not close(out, outi, rtol=1e-9, atol=1e-11):
                rep.violation("int-inputs", "integer and floating inputs give different outputs", {"case": desc, "inputs": ys})
    except Exception as e:
        rep.violation("compile-exception:" + type(e).__name__, "compiling / evaluating a well-formed circuit raised",
                      {"case": desc, "exception": repr(e)[:300], "traceback": traceback.format_exc()[-1500:]})
        return
    if not np.all(np.isfinite(out)):
        rep.count("non-finite-skipped")
        return
    ex = export.Exporter()
    try:
        tc = ex.circuit(sc)
    except export.ExportError as e:
        rep.violation("export-error", str(e), {"case": desc}, found_input=False)
        return
    term = f"[den_vs {tc} {export.ex_asgs(ys)} {export.ex_vals(out)}; b2n (wf {tc})]"

    def interp(res, desc=desc, ys=ys, out=out):
        dv, wf = res
        rep.count(f"coq:den_vs={dv}")
        if wf != 1:
            rep.violation("wf-corr", "the model considers a circuit accepted by cirkit ill-formed", {"case": desc}, found_input=False)
        if dv == 0:
            rep.violation("compiled-vs-denotation", "compiled output differs from the denotation of the symbolic circuit (exact model evaluation)",
                          {"case": desc, "inputs": ys, "observed": out.tolist()})

    cs.add(desc, term, interp, nontrivial=g.desc["sums"] >= 1 and g.desc["prods"] >= 1)


def run(rep, tier, seed, replay=None):
    n = 120 if tier == "quick" else 1500
    cs = CaseSet(rep, PID)
    if replay is not None:
        c = replay["replay"].get("case", {})
        one_case(rep, cs, c.get("seed", seed), c.get("i", 0))
        cs.run()
        return
    for i in range(n):
        one_case(rep, cs, seed, i)
    cs.run(shard=max(6, 120 // 14))  # shard size of the quick tier: thorough runs use more files, not longer ones
