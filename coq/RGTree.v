(* RGTree.v — tree-shaped region graphs (RandomBinaryTree, LinearTree, QuadTree, tree2rg):
   every recursive splitting of a scope into >= 2 disjoint non-empty sub-scopes yields a region
   graph that is valid and structured-decomposable. *)
From Coq Require Import ZArith QArith Qcanon List Bool Arith Lia Sorted Permutation.
Import ListNotations.
From CK Require Import Base Scalar Tensor Pexpr Exec Struct RG RGProofs.
Close Scope Qc_scope. Close Scope Q_scope. Close Scope Z_scope. Open Scope nat_scope.

(* ================================================================== *)
(* 1. Definitions                                                       *)
(* ================================================================== *)
(* a recursive splitting of a scope: a leaf carries its variables (any order, duplicates
   allowed: it is canonicalised like Scope(...) does); a Split node carries its sub-splittings *)
Inductive stree := Leaf (s : list nat) | Split (cs : list stree).

Lemma stree_ind' (P : stree -> Prop) :
  (forall s, P (Leaf s)) -> (forall cs, Forall P cs -> P (Split cs)) -> forall t, P t.
Proof.
  intros HL HS. fix IH 1. intros [s|cs].
  - apply HL.
  - apply HS. induction cs as [|c cs IHcs]; constructor; [apply IH|exact IHcs].
Qed.

(* scope of a tree: canonical union of its leaves *)
Fixpoint tscope (t : stree) : list nat :=
  match t with Leaf s => canon s | Split cs => sunions (map tscope cs) end.

(* all subtrees in pre-order (the tree itself first) *)
Fixpoint subtrees (t : stree) : list stree :=
  t :: match t with Leaf _ => [] | Split cs => flat_map subtrees cs end.
Definition tsize (t : stree) : nat := length (subtrees t).
Definition fsize (cs : list stree) : nat := length (flat_map subtrees cs).

(* pre-order indices of the children c_1..c_m of a node whose first child sits at index o *)
Fixpoint offs (o : nat) (cs : list stree) : list nat :=
  match cs with [] => [] | c :: r => o :: offs (o + tsize c) r end.

Section CParts.
  Variable f : stree -> nat -> list (nat * list nat).
  Fixpoint cparts (cs : list stree) (o : nat) : list (nat * list nat) :=
    match cs with [] => [] | c :: r => f c o ++ cparts r (o + tsize c) end.
End CParts.

(* partitions of the tree whose root region has index o: one per Split node *)
Fixpoint tparts (t : stree) (o : nat) {struct t} : list (nat * list nat) :=
  match t with
  | Leaf _ => []
  | Split cs => (o, offs (Datatypes.S o) cs) :: cparts tparts cs (Datatypes.S o)
  end.

(* the region graph of a tree: regions numbered in pre-order, region i = scope of the i-th
   subtree; one partition per Split node; the single root is region 0 *)
Definition tree_rg (t : stree) : rg := mkRG (map tscope (subtrees t)) (tparts t 0) [0].

(* well-formedness with at least k children per Split node *)
Fixpoint wfk (k : nat) (t : stree) : bool :=
  match t with
  | Leaf s => negb (sempty s)
  | Split cs => (k <=? length cs) && forallb (wfk k) cs && all_pairs sdisjoint (map tscope cs)
  end.
(* leaves non-empty; every Split has >= 2 children, with pairwise disjoint scopes *)
Definition wf_tree : stree -> bool := wfk 2.
(* the same but unary Splits allowed: enough for validity, NOT for structured decomposability *)
Definition wf1_tree : stree -> bool := wfk 1.

(* unfolding equations *)
Lemma tscope_Split cs : tscope (Split cs) = sunions (map tscope cs).
Proof. reflexivity. Qed.
Lemma subtrees_Split cs : subtrees (Split cs) = Split cs :: flat_map subtrees cs.
Proof. reflexivity. Qed.
Lemma subtrees_Leaf s : subtrees (Leaf s) = [Leaf s].
Proof. reflexivity. Qed.
Lemma tparts_Split cs o :
  tparts (Split cs) o = (o, offs (SS o) cs) :: cparts tparts cs (SS o).
Proof. reflexivity. Qed.
Lemma wfk_Split k cs :
  wfk k (Split cs) = (k <=? length cs) && forallb (wfk k) cs && all_pairs sdisjoint (map tscope cs).
Proof. reflexivity. Qed.
Lemma tsize_Split cs : tsize (Split cs) = SS (fsize cs).
Proof. reflexivity. Qed.
Lemma fsize_cons c cs : fsize (c :: cs) = tsize c + fsize cs.
Proof. unfold fsize, tsize. simpl. apply app_length. Qed.
Lemma subtrees_hd t : exists r, subtrees t = t :: r.
Proof. destruct t; eexists; reflexivity. Qed.
Lemma tsize_pos t : 1 <= tsize t.
Proof. unfold tsize. destruct (subtrees_hd t) as [r E]. rewrite E. simpl. lia. Qed.

(* ================================================================== *)
(* 2. Subtrees: scopes, well-formedness                                 *)
(* ================================================================== *)
Lemma subtrees_self t : In t (subtrees t).
Proof. destruct (subtrees_hd t) as [r E]. rewrite E. left; reflexivity. Qed.

Lemma subtrees_Split_In s cs :
  In s (subtrees (Split cs)) <-> s = Split cs \/ exists c, In c cs /\ In s (subtrees c).
Proof.
  rewrite subtrees_Split. simpl. rewrite in_flat_map. split.
  - intros [E|H]; [left; symmetry; exact E|right; exact H].
  - intros [E|H]; [left; symmetry; exact E|right; exact H].
Qed.

Lemma tscope_sorted t : sorted (tscope t).
Proof. destruct t; simpl; [apply canon_sorted|apply sunions_sorted]. Qed.

Lemma canon_sorted_id s : sorted s -> canon s = s.
Proof.
  intros H. apply sorted_ext; [apply canon_sorted|exact H|]. intros v. apply canon_In.
Qed.

Lemma tscope_Split_In v cs : In v (tscope (Split cs)) <-> exists c, In c cs /\ In v (tscope c).
Proof. rewrite tscope_Split. apply sunions_map_In. Qed.

Lemma sub_scope t : forall s, In s (subtrees t) -> forall v, In v (tscope s) -> In v (tscope t).
Proof.
  induction t as [l|cs IH] using stree_ind'; intros s Hs v Hv.
  - destruct Hs as [E|[]]. subst s. exact Hv.
  - apply subtrees_Split_In in Hs. destruct Hs as [E|[c [Hc Hs]]]; [subst s; exact Hv|].
    apply tscope_Split_In. exists c. split; [exact Hc|].
    rewrite Forall_forall in IH. apply (IH c Hc s Hs v Hv).
Qed.

Lemma sub_wf k t : wfk k t = true -> forall s, In s (subtrees t) -> wfk k s = true.
Proof.
  induction t as [l|cs IH] using stree_ind'; intros Hw s Hs.
  - destruct Hs as [E|[]]. subst s. exact Hw.
  - apply subtrees_Split_In in Hs. destruct Hs as [E|[c [Hc Hs]]]; [subst s; exact Hw|].
    rewrite wfk_Split, !andb_true_iff in Hw. destruct Hw as [[_ Hw] _].
    rewrite forallb_forall in Hw. rewrite Forall_forall in IH.
    apply (IH c Hc (Hw c Hc) s Hs).
Qed.

Lemma wf_nonempty k t : 1 <= k -> wfk k t = true -> tscope t <> [].
Proof.
  intros Hk. induction t as [l|cs IH] using stree_ind'; intros Hw.
  - simpl in *. apply canon_nonempty. apply sempty_false. exact Hw.
  - rewrite wfk_Split, !andb_true_iff in Hw. destruct Hw as [[Hl Hw] _].
    apply Nat.leb_le in Hl. destruct cs as [|c cs]; [simpl in Hl; lia|].
    rewrite forallb_forall in Hw. rewrite Forall_forall in IH.
    assert (Hc : tscope c <> []) by (apply IH; [left; reflexivity|apply Hw; left; reflexivity]).
    destruct (tscope c) as [|v r] eqn:E; [congruence|].
    intros E0. assert (Hv : In v (tscope (Split (c :: cs)))).
    { apply tscope_Split_In. exists c. split; [left; reflexivity|rewrite E; left; reflexivity]. }
    rewrite E0 in Hv. exact Hv.
Qed.

Lemma wfk_mono k k' t : k' <= k -> wfk k t = true -> wfk k' t = true.
Proof.
  intros Hk. induction t as [l|cs IH] using stree_ind'; intros Hw; [exact Hw|].
  rewrite wfk_Split, !andb_true_iff in *. destruct Hw as [[Hl Hw] Hd].
  apply Nat.leb_le in Hl. split; [split|exact Hd]; [apply Nat.leb_le; lia|].
  rewrite forallb_forall in *. rewrite Forall_forall in IH. intros c Hc. apply IH; auto.
Qed.

Lemma wf_wf1 t : wf_tree t = true -> wf1_tree t = true.
Proof. apply wfk_mono. lia. Qed.

Lemma nth_map_tscope cs p : p < length cs ->
  nth p (map tscope cs) [] = tscope (nth p cs (Leaf [])).
Proof.
  intros Hp. rewrite (nth_indep _ [] (tscope (Leaf []))) by (rewrite map_length; exact Hp).
  apply map_nth.
Qed.

(* distinct children of a well-formed Split have disjoint scopes *)
Lemma wf_children_disjoint k cs p q : wfk k (Split cs) = true ->
  p <> q -> p < length cs -> q < length cs ->
  forall v, In v (tscope (nth p cs (Leaf []))) -> ~ In v (tscope (nth q cs (Leaf []))).
Proof.
  intros Hw Hpq Hp Hq v Hv1 Hv2.
  rewrite wfk_Split, !andb_true_iff in Hw. destruct Hw as [_ Hd].
  rewrite (all_pairs_iff sdisjoint []) in Hd. rewrite map_length in Hd.
  destruct (Nat.lt_ge_cases p q) as [Hlt|Hge].
  - specialize (Hd p q Hlt Hq). rewrite !nth_map_tscope in Hd by lia.
    rewrite sdisjoint_iff in Hd. exact (Hd v Hv1 Hv2).
  - assert (Hlt : q < p) by lia. specialize (Hd q p Hlt Hp).
    rewrite !nth_map_tscope in Hd by lia. rewrite sdisjoint_iff in Hd. exact (Hd v Hv2 Hv1).
Qed.

(* a proper subtree of a node with >= 2 children has a strictly smaller scope *)
Lemma sub_proper cs c s : wfk 2 (Split cs) = true -> In c cs -> In s (subtrees c) ->
  ~ set_eq (tscope s) (tscope (Split cs)).
Proof.
  intros Hw Hc Hs Heq.
  pose proof Hw as Hw0. rewrite wfk_Split, !andb_true_iff in Hw0. destruct Hw0 as [[Hl Hwc] _].
  apply Nat.leb_le in Hl. rewrite forallb_forall in Hwc.
  apply (In_nth _ _ (Leaf [])) in Hc. destruct Hc as [p [Hp Ep]].
  set (q := if p =? 0 then 1 else 0).
  assert (Hq : q < length cs) by (unfold q; destruct (p =? 0); lia).
  assert (Hpq : q <> p) by (unfold q; destruct (p =? 0) eqn:E; [apply Nat.eqb_eq in E|apply Nat.eqb_neq in E]; lia).
  assert (Hne : tscope (nth q cs (Leaf [])) <> []).
  { apply (wf_nonempty 2); [lia|]. apply Hwc. apply nth_In. exact Hq. }
  destruct (tscope (nth q cs (Leaf []))) as [|v r] eqn:E; [congruence|].
  assert (Hv : In v (tscope (nth q cs (Leaf [])))) by (rewrite E; left; reflexivity).
  apply (wf_children_disjoint 2 cs q p Hw Hpq Hq Hp v Hv).
  rewrite Ep. apply (sub_scope c s Hs). apply Heq.
  apply tscope_Split_In. exists (nth q cs (Leaf [])). split; [apply nth_In; exact Hq|exact Hv].
Qed.

(* in a well-formed tree (>= 2 children everywhere) a subtree is determined by its scope *)
Lemma sub_scope_inj t : wfk 2 t = true ->
  forall s1 s2, In s1 (subtrees t) -> In s2 (subtrees t) ->
  set_eq (tscope s1) (tscope s2) -> s1 = s2.
Proof.
  induction t as [l|cs IH] using stree_ind'; intros Hw s1 s2 H1 H2 Heq.
  - destruct H1 as [E1|[]]. destruct H2 as [E2|[]]. congruence.
  - apply subtrees_Split_In in H1, H2.
    destruct H1 as [E1|[c1 [Hc1 H1]]]; destruct H2 as [E2|[c2 [Hc2 H2]]].
    + congruence.
    + subst s1. exfalso. apply (sub_proper cs c2 s2 Hw Hc2 H2). apply set_eq_sym. exact Heq.
    + subst s2. exfalso. apply (sub_proper cs c1 s1 Hw Hc1 H1). exact Heq.
    + pose proof Hw as Hw0. rewrite wfk_Split, !andb_true_iff in Hw0.
      destruct Hw0 as [[_ Hwc] _]. rewrite forallb_forall in Hwc.
      pose proof Hc1 as Hc1'. pose proof Hc2 as Hc2'.
      apply (In_nth _ _ (Leaf [])) in Hc1'. destruct Hc1' as [p [Hp Ep]].
      apply (In_nth _ _ (Leaf [])) in Hc2'. destruct Hc2' as [q [Hq Eq]].
      destruct (Nat.eq_dec p q) as [E|Hpq].
      * subst q. rewrite Ep in Eq. subst c2. rewrite Forall_forall in IH.
        apply (IH c1 Hc1 (Hwc c1 Hc1) s1 s2 H1 H2 Heq).
      * exfalso.
        assert (Hne : tscope s1 <> []).
        { apply (wf_nonempty 2); [lia|]. apply (sub_wf 2 c1 (Hwc c1 Hc1) s1 H1). }
        destruct (tscope s1) as [|v r] eqn:E; [congruence|].
        assert (Hv : In v (tscope s1)) by (rewrite E; left; reflexivity).
        apply (wf_children_disjoint 2 cs p q Hw Hpq Hp Hq v).
        -- rewrite Ep. apply (sub_scope c1 s1 H1). exact Hv.
        -- rewrite Eq. apply (sub_scope c2 s2 H2). apply Heq. rewrite <- E. exact Hv.
Qed.

(* ================================================================== *)
(* 3. The numbering: what the partitions of [tparts] denote             *)
(* ================================================================== *)
(* the list R agrees with L on the window starting at index o *)
Definition window (R : list (list nat)) (o : nat) (L : list (list nat)) : Prop :=
  forall i, i < length L -> nth (o + i) R [] = nth i L [].

Lemma window_self L : window L 0 L.
Proof. intros i _. reflexivity. Qed.

Lemma window_cons R o x L : window R o (x :: L) <-> nth o R [] = x /\ window R (SS o) L.
Proof.
  unfold window. split.
  - intros H. split.
    + specialize (H 0). simpl in H. rewrite Nat.add_0_r in H. apply H. lia.
    + intros i Hi. specialize (H (SS i)). simpl in H. rewrite Nat.add_succ_r in H.
      apply H. lia.
  - intros [H0 H] i Hi. destruct i as [|i].
    + rewrite Nat.add_0_r. exact H0.
    + rewrite Nat.add_succ_r. simpl in Hi. simpl. apply H. lia.
Qed.

Lemma window_app R o L1 L2 :
  window R o (L1 ++ L2) <-> window R o L1 /\ window R (o + length L1) L2.
Proof.
  unfold window. split.
  - intros H. split.
    + intros i Hi. rewrite H by (rewrite app_length; lia). apply app_nth1. exact Hi.
    + intros i Hi. rewrite <- Nat.add_assoc. rewrite H by (rewrite app_length; lia).
      rewrite app_nth2 by lia. f_equal. lia.
  - intros [H1 H2] i Hi. rewrite app_length in Hi.
    destruct (Nat.lt_ge_cases i (length L1)) as [Hlt|Hge].
    + rewrite app_nth1 by exact Hlt. apply H1. exact Hlt.
    + rewrite app_nth2 by exact Hge.
      replace (o + i) with (o + length L1 + (i - length L1)) by lia. apply H2. lia.
Qed.

(* the scope-level content of a partition: (scope of its region, scopes of its inputs in order) *)
Definition pfact (R : list (list nat)) (p : nat * list nat) : list nat * list (list nat) :=
  (nth (fst p) R [], map (fun j => nth j R []) (snd p)).
Definition node_fact (t : stree) : list (list nat * list (list nat)) :=
  match t with Leaf _ => [] | Split cs => [(tscope (Split cs), map tscope cs)] end.

Lemma offs_scopes cs : forall R o, window R o (map tscope (flat_map subtrees cs)) ->
  map (fun j => nth j R []) (offs o cs) = map tscope cs.
Proof.
  induction cs as [|c cs IH]; intros R o H; [reflexivity|].
  simpl in H. rewrite map_app, window_app in H. destruct H as [H1 H2].
  destruct (subtrees_hd c) as [r E]. rewrite E in H1. simpl in H1.
  apply window_cons in H1. destruct H1 as [H1 _].
  rewrite map_length in H2.
  simpl. rewrite H1. f_equal. apply IH. exact H2.
Qed.

Lemma cparts_facts cs :
  Forall (fun t => forall R o, window R o (map tscope (subtrees t)) ->
            map (pfact R) (tparts t o) = flat_map node_fact (subtrees t)) cs ->
  forall R o, window R o (map tscope (flat_map subtrees cs)) ->
  map (pfact R) (cparts tparts cs o) = flat_map node_fact (flat_map subtrees cs).
Proof.
  induction 1 as [|c cs Hc Hcs IH]; intros R o H; [reflexivity|].
  simpl in H. rewrite map_app, window_app in H. destruct H as [H1 H2].
  rewrite map_length in H2.
  simpl. rewrite map_app, flat_map_app. f_equal; [apply Hc; exact H1|apply IH; exact H2].
Qed.

(* KEY LEMMA: the partitions of a tree, read at scope level, are exactly the Split nodes *)
Lemma tparts_facts t : forall R o, window R o (map tscope (subtrees t)) ->
  map (pfact R) (tparts t o) = flat_map node_fact (subtrees t).
Proof.
  induction t as [l|cs IH] using stree_ind'; intros R o H; [reflexivity|].
  rewrite subtrees_Split in *. rewrite map_cons in H. apply window_cons in H.
  destruct H as [H0 H1].
  rewrite tparts_Split. rewrite map_cons.
  change (flat_map node_fact (Split cs :: flat_map subtrees cs))
    with ((tscope (Split cs), map tscope cs) :: flat_map node_fact (flat_map subtrees cs)).
  f_equal.
  - unfold pfact. simpl fst. simpl snd. rewrite H0. f_equal. apply offs_scopes. exact H1.
  - apply cparts_facts; [exact IH|exact H1].
Qed.

(* all indices used by the partitions of a tree rooted at o lie in [o, o + tsize) *)
Definition in_range (o n : nat) (p : nat * list nat) : Prop :=
  (o <= fst p < o + n) /\ forall j, In j (snd p) -> o <= j < o + n.

Lemma offs_range cs : forall o j, In j (offs o cs) -> o <= j < o + fsize cs.
Proof.
  induction cs as [|c cs IH]; intros o j Hj; [destruct Hj|].
  rewrite fsize_cons. pose proof (tsize_pos c). simpl in Hj. destruct Hj as [E|Hj]; [lia|].
  apply IH in Hj. lia.
Qed.

Lemma cparts_range cs :
  Forall (fun t => forall o p, In p (tparts t o) -> in_range o (tsize t) p) cs ->
  forall o p, In p (cparts tparts cs o) -> in_range o (fsize cs) p.
Proof.
  induction 1 as [|c cs Hc Hcs IH]; intros o p Hp; [destruct Hp|].
  rewrite fsize_cons. simpl in Hp. apply in_app_iff in Hp. destruct Hp as [Hp|Hp].
  - apply Hc in Hp. destruct Hp as [Ha Hb]. split; [lia|]. intros j Hj. specialize (Hb j Hj). lia.
  - apply IH in Hp. destruct Hp as [Ha Hb]. split; [lia|]. intros j Hj. specialize (Hb j Hj). lia.
Qed.

Lemma tparts_range t : forall o p, In p (tparts t o) -> in_range o (tsize t) p.
Proof.
  induction t as [l|cs IH] using stree_ind'; intros o p Hp; [destruct Hp|].
  rewrite tparts_Split in Hp. rewrite tsize_Split. destruct Hp as [E|Hp].
  - subst p. split; [simpl; lia|]. simpl snd. intros j Hj. apply offs_range in Hj. lia.
  - apply (cparts_range cs IH) in Hp. destruct Hp as [Ha Hb]. split; [lia|].
    intros j Hj. specialize (Hb j Hj). lia.
Qed.

(* ================================================================== *)
(* 4. part_ok from scope-level facts                                    *)
(* ================================================================== *)
Definition fact_ok (sf : list nat * list (list nat)) : bool :=
  negb (match snd sf with [] => true | _ => false end) && forallb (fun x => negb (sempty x)) (snd sf)
  && all_pairs sdisjoint (snd sf) && seqb (sunions (snd sf)) (canon (fst sf)).

Lemma forallb_map' {A B} (f : A -> B) (P : B -> bool) l :
  forallb P (map f l) = forallb (fun a => P (f a)) l.
Proof. induction l as [|a l IH]; simpl; [reflexivity|]. rewrite IH. reflexivity. Qed.

Lemma part_ok_of_fact g p :
  fst p < length (regions g) ->
  (forall j, In j (snd p) -> j < length (regions g)) ->
  fact_ok (pfact (regions g) p) = true ->
  part_ok g p = true.
Proof.
  destruct p as [o ins]. simpl fst. simpl snd. intros Ho Hins Hf.
  unfold fact_ok, pfact in Hf. simpl fst in Hf. simpl snd in Hf.
  rewrite !andb_true_iff in Hf. destruct Hf as [[[F1 F2] F3] F4].
  unfold part_ok. rewrite !andb_true_iff. repeat split.
  - apply Nat.ltb_lt. exact Ho.
  - destruct ins; [discriminate F1|reflexivity].
  - apply forallb_ltb_iff. exact Hins.
  - rewrite forallb_map' in F2. exact F2.
  - exact F3.
  - exact F4.
Qed.

Lemma node_fact_ok k t : 1 <= k -> wfk k t = true ->
  forall sf, In sf (node_fact t) -> fact_ok sf = true.
Proof.
  intros Hk Hw sf Hsf. destruct t as [l|cs]; [destruct Hsf|].
  destruct Hsf as [E|[]]. subst sf.
  rewrite wfk_Split, !andb_true_iff in Hw. destruct Hw as [[Hl Hwc] Hd].
  apply Nat.leb_le in Hl. rewrite forallb_forall in Hwc.
  unfold fact_ok. simpl fst. simpl snd. rewrite !andb_true_iff. repeat split.
  - destruct cs; [simpl in Hl; lia|reflexivity].
  - rewrite forallb_map'. apply forallb_forall. intros c Hc. apply sempty_false.
    apply (wf_nonempty k); [exact Hk|apply Hwc; exact Hc].
  - exact Hd.
  - rewrite canon_sorted_id by apply sunions_sorted. apply seqb_refl.
Qed.

Lemma tree_facts_ok k t : 1 <= k -> wfk k t = true ->
  forall sf, In sf (flat_map node_fact (subtrees t)) -> fact_ok sf = true.
Proof.
  intros Hk Hw sf Hsf. apply in_flat_map in Hsf. destruct Hsf as [s [Hs Hsf]].
  apply (node_fact_ok k s Hk); [apply (sub_wf k t Hw s Hs)|exact Hsf].
Qed.

(* ================================================================== *)
(* 5. Main theorems                                                     *)
(* ================================================================== *)
Lemma tree_rg_length t : length (regions (tree_rg t)) = tsize t.
Proof. simpl. apply map_length. Qed.

Lemma tree_rg_facts t :
  map (pfact (regions (tree_rg t))) (parts (tree_rg t)) = flat_map node_fact (subtrees t).
Proof. simpl. apply tparts_facts. apply window_self. Qed.

Lemma tree_rg_root_scope t : rscope (tree_rg t) 0 = tscope t.
Proof. unfold rscope. simpl. destruct (subtrees_hd t) as [r E]. rewrite E. reflexivity. Qed.

(* validity only needs >= 1 child per Split *)
Theorem tree_rg_valid1 t : wf1_tree t = true -> rg_valid (tree_rg t) = true.
Proof.
  intros Hw. unfold wf1_tree in Hw. unfold rg_valid. rewrite !andb_true_iff. repeat split.
  - apply forallb_forall. intros r [E|[]]. subst r.
    apply Nat.ltb_lt. rewrite tree_rg_length. apply tsize_pos.
  - simpl regions. rewrite forallb_map'. apply forallb_forall. intros s Hs.
    apply sempty_false. apply (wf_nonempty 1); [lia|]. apply (sub_wf 1 t Hw s Hs).
  - apply forallb_forall. intros p Hp.
    pose proof (tparts_range t 0 p Hp) as [Ha Hb].
    apply part_ok_of_fact.
    + rewrite tree_rg_length. lia.
    + intros j Hj. rewrite tree_rg_length. specialize (Hb j Hj). lia.
    + apply (tree_facts_ok 1 t); [lia|exact Hw|]. rewrite <- tree_rg_facts.
      apply in_map. exact Hp.
  - unfold rg_vars. apply seqb_iff; [apply sunions_sorted|apply sunions_sorted|].
    intros v. rewrite sunions_map_In, sunions_In. split.
    + intros [r [[E|[]] Hv]]. subst r. exists (tscope t). split.
      * simpl. apply in_map. apply subtrees_self.
      * rewrite tree_rg_root_scope in Hv. exact Hv.
    + intros [s [Hs Hv]]. exists 0. split; [left; reflexivity|].
      rewrite tree_rg_root_scope. simpl in Hs. apply in_map_iff in Hs.
      destruct Hs as [s' [E Hs']]. subst s. apply (sub_scope t s' Hs' v Hv).
Qed.

Theorem tree_rg_valid t : wf_tree t = true -> rg_valid (tree_rg t) = true.
Proof. intros Hw. apply tree_rg_valid1. apply wf_wf1. exact Hw. Qed.

Lemma in_node_fact sf t : In sf (flat_map node_fact (subtrees t)) ->
  exists cs, In (Split cs) (subtrees t) /\ sf = (tscope (Split cs), map tscope cs).
Proof.
  intros H. apply in_flat_map in H. destruct H as [s [Hs Hsf]].
  destruct s as [l|cs]; [destruct Hsf|]. destruct Hsf as [E|[]].
  exists cs. split; [exact Hs|symmetry; exact E].
Qed.

Theorem tree_rg_sd t : wf_tree t = true -> rg_sd (tree_rg t) = true.
Proof.
  intros Hw. apply rg_sd_spec. intros p q Hp Hq Heq.
  assert (Fp : In (pfact (regions (tree_rg t)) p) (flat_map node_fact (subtrees t)))
    by (rewrite <- tree_rg_facts; apply in_map; exact Hp).
  assert (Fq : In (pfact (regions (tree_rg t)) q) (flat_map node_fact (subtrees t)))
    by (rewrite <- tree_rg_facts; apply in_map; exact Hq).
  apply in_node_fact in Fp, Fq.
  destruct Fp as [cs1 [H1 E1]]. destruct Fq as [cs2 [H2 E2]].
  assert (A1 : rscope (tree_rg t) (fst p) = tscope (Split cs1)) by (apply (f_equal fst) in E1; exact E1).
  assert (A2 : rscope (tree_rg t) (fst q) = tscope (Split cs2)) by (apply (f_equal fst) in E2; exact E2).
  assert (B1 : map (rscope (tree_rg t)) (snd p) = map tscope cs1) by (apply (f_equal snd) in E1; exact E1).
  assert (B2 : map (rscope (tree_rg t)) (snd q) = map tscope cs2) by (apply (f_equal snd) in E2; exact E2).
  rewrite A1, A2 in Heq.
  pose proof (sub_scope_inj t Hw _ _ H1 H2 Heq) as E. inversion E. subst cs2.
  rewrite B1, B2. apply same_split_refl.
Qed.

(* ================================================================== *)
(* 6. Unary Splits: valid but not structured-decomposable               *)
(* ================================================================== *)
(* a Split with a single child has the scope of its child, so the two partitions
   {S} and {A,B} of the same scope S disagree: >= 2 children is necessary for [tree_rg_sd].
   (None of RandomBinaryTree / LinearTree / QuadTree / tree2rg creates a unary partition.) *)
Definition unary_ex : stree := Split [Split [Leaf [0]; Leaf [1]]].
Example unary_ex_wf1 : wf1_tree unary_ex = true.   Proof. vm_compute. reflexivity. Qed.
Example unary_ex_wf : wf_tree unary_ex = false.    Proof. vm_compute. reflexivity. Qed.
Example unary_ex_valid : rg_valid (tree_rg unary_ex) = true. Proof. vm_compute. reflexivity. Qed.
Example unary_ex_not_sd : rg_sd (tree_rg unary_ex) = false.  Proof. vm_compute. reflexivity. Qed.

(* ================================================================== *)
(* 7. Examples                                                          *)
(* ================================================================== *)
(* a (random-)binary tree over the 5 variables 0,3,4,9,12 *)
Definition bin5 : stree :=
  Split [Split [Leaf [12]; Split [Leaf [0]; Leaf [4]]]; Split [Leaf [9]; Leaf [3]]].
Example bin5_rg : tree_rg bin5 =
  mkRG [[0;3;4;9;12]; [0;4;12]; [12]; [0;4]; [0]; [4]; [3;9]; [9]; [3]]
       [(0, [1; 6]); (1, [2; 3]); (3, [4; 5]); (6, [7; 8])] [0].
Proof. vm_compute. reflexivity. Qed.
Example bin5_wf : wf_tree bin5 = true.               Proof. vm_compute. reflexivity. Qed.
Example bin5_valid : rg_valid (tree_rg bin5) = true. Proof. vm_compute. reflexivity. Qed.
Example bin5_sd : rg_sd (tree_rg bin5) = true.       Proof. vm_compute. reflexivity. Qed.
(* a binary tree of depth 1 (RandomBinaryTree with depth < max depth): multi-variable leaves,
   written in shuffled order *)
Definition bin5_shallow : stree := Split [Leaf [12; 0; 4]; Leaf [9; 3]].
Example bin5_shallow_ok : wf_tree bin5_shallow = true /\ rg_valid (tree_rg bin5_shallow) = true
  /\ rg_sd (tree_rg bin5_shallow) = true /\ regions (tree_rg bin5_shallow) = [[0;3;4;9;12]; [0;4;12]; [3;9]].
Proof. vm_compute. repeat split. Qed.

(* QuadTree((1,4,4), num_patch_splits=4): a 4-way split of 4-way splits of the pixels *)
Definition quad16 : stree :=
  Split [Split [Leaf [0]; Leaf [1]; Leaf [4]; Leaf [5]];
         Split [Leaf [2]; Leaf [3]; Leaf [6]; Leaf [7]];
         Split [Leaf [8]; Leaf [9]; Leaf [12]; Leaf [13]];
         Split [Leaf [10]; Leaf [11]; Leaf [14]; Leaf [15]]].
Example quad16_wf : wf_tree quad16 = true.               Proof. vm_compute. reflexivity. Qed.
Example quad16_valid : rg_valid (tree_rg quad16) = true. Proof. vm_compute. reflexivity. Qed.
Example quad16_sd : rg_sd (tree_rg quad16) = true.       Proof. vm_compute. reflexivity. Qed.
Example quad16_vars : rg_vars (tree_rg quad16) = seq 0 16. Proof. vm_compute. reflexivity. Qed.
(* QuadTree((2,2,3), num_patch_splits=2): 2 channels (pixel (i,j) has scope {3i+j, 6+3i+j}),
   odd width: the last column is merged by a binary split only *)
Definition quad_2x3 : stree :=
  Split [Split [Split [Leaf [0;6]; Leaf [1;7]]; Split [Leaf [3;9]; Leaf [4;10]]];
         Split [Leaf [2;8]; Leaf [5;11]]].
Example quad_2x3_ok : wf_tree quad_2x3 = true /\ rg_valid (tree_rg quad_2x3) = true
  /\ rg_sd (tree_rg quad_2x3) = true /\ rg_vars (tree_rg quad_2x3) = seq 0 12.
Proof. vm_compute. repeat split. Qed.

(* what RandomBinaryTree(5) (seed 42) actually builds, children in the implementation's order *)
Definition rbt5 : stree :=
  Split [Split [Leaf [1]; Leaf [4]]; Split [Split [Leaf [3]; Leaf [2]]; Leaf [0]]].
Example rbt5_ok : wf_tree rbt5 = true /\ rg_valid (tree_rg rbt5) = true /\ rg_sd (tree_rg rbt5) = true
  /\ map (pfact (regions (tree_rg rbt5))) (parts (tree_rg rbt5)) =
     [([0;1;2;3;4], [[1;4]; [0;2;3]]); ([1;4], [[1]; [4]]); ([0;2;3], [[2;3]; [0]]); ([2;3], [[3]; [2]])].
Proof. vm_compute. repeat split. Qed.
(* tree2rg([-1,0,0,1,1]) (Chow-Liu tree 0 -> {1 -> {3,4}, 2}): mixed arities *)
Definition clt5 : stree := Split [Leaf [0]; Split [Leaf [1]; Leaf [3]; Leaf [4]]; Leaf [2]].
Example clt5_ok : wf_tree clt5 = true /\ rg_valid (tree_rg clt5) = true /\ rg_sd (tree_rg clt5) = true
  /\ map (pfact (regions (tree_rg clt5))) (parts (tree_rg clt5)) =
     [([0;1;2;3;4], [[0]; [1;3;4]; [2]]); ([1;3;4], [[1]; [3]; [4]])].
Proof. vm_compute. repeat split. Qed.

(* non-example: overlapping children *)
Definition overlap_ex : stree := Split [Leaf [0;1]; Leaf [1;2]].
Example overlap_ex_wf : wf_tree overlap_ex = false.                Proof. vm_compute. reflexivity. Qed.
Example overlap_ex_invalid : rg_valid (tree_rg overlap_ex) = false. Proof. vm_compute. reflexivity. Qed.
(* non-example: an empty leaf *)
Definition empty_ex : stree := Split [Leaf [0;1]; Leaf []].
Example empty_ex_bad : wf_tree empty_ex = false /\ rg_valid (tree_rg empty_ex) = false.
Proof. vm_compute. split; reflexivity. Qed.

(* ================================================================== *)
(* 8. Several repetitions sharing the root region                       *)
(* ================================================================== *)
(* RandomBinaryTree / LinearTree with num_repetitions = r: ONE root region carrying r partitions,
   the i-th one into the top-level children css_i of the i-th tree; region nodes are compared by
   identity in cirkit, so nothing but the root is shared between repetitions.
   Regions: 0 = root, then the subtrees of the repetitions one after the other, in pre-order. *)
Definition msize (css : list (list stree)) : nat := length (flat_map (flat_map subtrees) css).
Fixpoint mparts (css : list (list stree)) (o : nat) : list (nat * list nat) :=
  match css with
  | [] => []
  | cs :: r => (0, offs o cs) :: cparts tparts cs o ++ mparts r (o + fsize cs)
  end.
Definition mscope (css : list (list stree)) : list nat := tscope (Split (hd [] css)).
Definition multi_rg (css : list (list stree)) : rg :=
  mkRG (mscope css :: map tscope (flat_map (flat_map subtrees) css)) (mparts css 1) [0].
(* at least one repetition; every repetition is a well-formed split (>= 1 child suffices)
   of one and the same scope *)
Definition wf_multi (css : list (list stree)) : bool :=
  negb (match css with [] => true | _ => false end)
  && forallb (fun cs => wf1_tree (Split cs)) css
  && forallb (fun cs => seqb (tscope (Split cs)) (mscope css)) css.

Lemma multi_rg_single cs : multi_rg [cs] = tree_rg (Split cs).
Proof.
  unfold multi_rg, tree_rg, mscope. simpl hd. rewrite subtrees_Split, tparts_Split.
  simpl flat_map. simpl mparts. rewrite !app_nil_r. reflexivity.
Qed.

Lemma msize_cons cs css : msize (cs :: css) = fsize cs + msize css.
Proof. unfold msize, fsize. simpl. apply app_length. Qed.

Lemma mparts_facts S css : forall R o, nth 0 R [] = S ->
  window R o (map tscope (flat_map (flat_map subtrees) css)) ->
  map (pfact R) (mparts css o) =
  flat_map (fun cs => (S, map tscope cs) :: flat_map node_fact (flat_map subtrees cs)) css.
Proof.
  induction css as [|cs css IH]; intros R o H0 H; [reflexivity|].
  simpl in H. rewrite map_app, window_app in H. destruct H as [H1 H2]. rewrite map_length in H2.
  simpl. rewrite map_app. f_equal.
  - unfold pfact. simpl fst. simpl snd. rewrite H0. f_equal. apply offs_scopes. exact H1.
  - f_equal.
    + apply cparts_facts; [|exact H1]. apply Forall_forall. intros t _. apply tparts_facts.
    + apply IH; [exact H0|exact H2].
Qed.

Lemma mparts_range css : forall o p, 1 <= o -> In p (mparts css o) ->
  fst p < o + msize css /\ forall j, In j (snd p) -> j < o + msize css.
Proof.
  induction css as [|cs css IH]; intros o p Ho Hp; [destruct Hp|].
  rewrite msize_cons. simpl in Hp.
  destruct Hp as [E|Hp]; [|apply in_app_iff in Hp; destruct Hp as [Hp|Hp]].
  - subst p. simpl fst. simpl snd. split; [lia|].
    intros j Hj. apply offs_range in Hj. lia.
  - apply (cparts_range cs) in Hp; [|apply Forall_forall; intros t _; apply tparts_range].
    destruct Hp as [Ha Hb]. split; [lia|]. intros j Hj. specialize (Hb j Hj). lia.
  - apply IH in Hp; [|lia]. destruct Hp as [Ha Hb]. split; [lia|].
    intros j Hj. specialize (Hb j Hj). lia.
Qed.

Lemma multi_rg_length css : length (regions (multi_rg css)) = 1 + msize css.
Proof. simpl. rewrite map_length. reflexivity. Qed.

Lemma multi_rg_facts css :
  map (pfact (regions (multi_rg css))) (parts (multi_rg css)) =
  flat_map (fun cs => (mscope css, map tscope cs) :: flat_map node_fact (flat_map subtrees cs)) css.
Proof.
  simpl. apply mparts_facts; [reflexivity|].
  apply (window_cons _ 0 (mscope css)). apply window_self.
Qed.

Theorem multi_rg_valid css : wf_multi css = true -> rg_valid (multi_rg css) = true.
Proof.
  intros Hw. unfold wf_multi in Hw. rewrite !andb_true_iff in Hw. destruct Hw as [[Hne Hwf] Hsc].
  rewrite forallb_forall in Hwf, Hsc. unfold wf1_tree in Hwf.
  assert (Hsc' : forall cs, In cs css -> tscope (Split cs) = mscope css)
    by (intros cs Hcs; apply seqb_eq; apply Hsc; exact Hcs).
  assert (Hroot : mscope css <> []).
  { destruct css as [|cs0 css0]; [discriminate Hne|]. unfold mscope. simpl hd.
    apply (wf_nonempty 1); [lia|]. apply Hwf. left; reflexivity. }
  (* every non-root region is the scope of a subtree of some repetition *)
  assert (Hreg : forall s, In s (map tscope (flat_map (flat_map subtrees) css)) ->
            exists cs t, In cs css /\ In t (subtrees (Split cs)) /\ s = tscope t).
  { intros s Hs. apply in_map_iff in Hs. destruct Hs as [t [E Ht]].
    apply in_flat_map in Ht. destruct Ht as [cs [Hcs Ht]].
    exists cs, t. split; [exact Hcs|]. split; [|symmetry; exact E].
    rewrite subtrees_Split. right. exact Ht. }
  unfold rg_valid. rewrite !andb_true_iff.
  split; [split; [split; [split; [reflexivity|reflexivity]|]|]|].
  - apply forallb_forall. intros s Hs. apply sempty_false. simpl in Hs.
    destruct Hs as [E|Hs]; [subst s; exact Hroot|].
    apply Hreg in Hs. destruct Hs as [cs [t [Hcs [Ht E]]]]. subst s.
    apply (wf_nonempty 1); [lia|]. apply (sub_wf 1 (Split cs)); [apply Hwf; exact Hcs|exact Ht].
  - apply forallb_forall. intros p Hp.
    pose proof (mparts_range css 1 p (le_n 1) Hp) as [Ha Hb].
    apply part_ok_of_fact.
    + rewrite multi_rg_length. exact Ha.
    + intros j Hj. rewrite multi_rg_length. apply Hb. exact Hj.
    + assert (Hf : In (pfact (regions (multi_rg css)) p)
                     (map (pfact (regions (multi_rg css))) (parts (multi_rg css))))
        by (apply in_map; exact Hp).
      rewrite multi_rg_facts in Hf. apply in_flat_map in Hf. destruct Hf as [cs [Hcs Hf]].
      apply (tree_facts_ok 1 (Split cs)); [lia|apply Hwf; exact Hcs|].
      rewrite subtrees_Split.
      change (flat_map node_fact (Split cs :: flat_map subtrees cs))
        with ((tscope (Split cs), map tscope cs) :: flat_map node_fact (flat_map subtrees cs)).
      rewrite (Hsc' cs Hcs). exact Hf.
  - unfold rg_vars. apply seqb_iff; [apply sunions_sorted|apply sunions_sorted|].
    intros v. rewrite sunions_map_In, sunions_In. split.
    + intros [r [[E|[]] Hv]]. subst r. exists (mscope css). split; [left; reflexivity|exact Hv].
    + intros [s [Hs Hv]]. exists 0. split; [left; reflexivity|].
      change (rscope (multi_rg css) 0) with (mscope css).
      simpl in Hs. destruct Hs as [E|Hs]; [subst s; exact Hv|].
      apply Hreg in Hs. destruct Hs as [cs [t [Hcs [Ht E]]]]. subst s.
      rewrite <- (Hsc' cs Hcs). apply (sub_scope (Split cs) t Ht v Hv).
Qed.

(* two repetitions are in general NOT structured-decomposable: {0,1,2} = {0}+{1,2} = {0,1}+{2} *)
Definition two_reps : list (list stree) :=
  [[Leaf [0]; Split [Leaf [1]; Leaf [2]]]; [Split [Leaf [0]; Leaf [1]]; Leaf [2]]].
Example two_reps_rg : multi_rg two_reps =
  mkRG [[0;1;2]; [0]; [1;2]; [1]; [2]; [0;1]; [0]; [1]; [2]]
       [(0, [1; 2]); (2, [3; 4]); (0, [5; 8]); (5, [6; 7])] [0].
Proof. vm_compute. reflexivity. Qed.
Example two_reps_wf : wf_multi two_reps = true.               Proof. vm_compute. reflexivity. Qed.
Example two_reps_valid : rg_valid (multi_rg two_reps) = true. Proof. vm_compute. reflexivity. Qed.
Example two_reps_not_sd : rg_sd (multi_rg two_reps) = false.  Proof. vm_compute. reflexivity. Qed.
(* ... unless the repetitions split every scope alike (e.g. LinearTree with randomize=False) *)
Definition same_reps : list (list stree) :=
  [[Leaf [0]; Split [Leaf [1]; Leaf [2]]]; [Leaf [0]; Split [Leaf [1]; Leaf [2]]]].
Example same_reps_ok : wf_multi same_reps = true /\ rg_valid (multi_rg same_reps) = true
  /\ rg_sd (multi_rg same_reps) = true.
Proof. vm_compute. repeat split. Qed.
(* repetitions over different scopes are rejected *)
Example diff_scope_bad :
  wf_multi [[Leaf [0]; Leaf [1]]; [Leaf [0]; Leaf [2]]] = false /\
  rg_valid (multi_rg [[Leaf [0]; Leaf [1]]; [Leaf [0]; Leaf [2]]]) = false.
Proof. vm_compute. split; reflexivity. Qed.

(* ================================================================== *)
(* 9. rg_sd only depends on the multiset of scope-level facts           *)
(* ================================================================== *)
(* hence not on how regions are numbered, nor on the order of partitions *)
Definition cfact (sf : list nat * list (list nat)) : list nat * list (list nat) :=
  (canon (fst sf), fcanon (map canon (snd sf))).

Lemma part_fact_pfact g p : part_fact g p = cfact (pfact (regions g) p).
Proof. unfold part_fact, cfact, pfact, rscope. simpl. rewrite map_map. reflexivity. Qed.

Lemma pairs_ok_perm F G : Permutation F G -> pairs_ok F = pairs_ok G.
Proof.
  intros HP. apply eq_true_iff_eq. rewrite !pairs_ok_iff.
  split; intros H s f g Hf Hg; apply (H s f g).
  - apply (Permutation_in _ (Permutation_sym HP)); exact Hf.
  - apply (Permutation_in _ (Permutation_sym HP)); exact Hg.
  - apply (Permutation_in _ HP); exact Hf.
  - apply (Permutation_in _ HP); exact Hg.
Qed.

Theorem rg_sd_facts_perm g1 g2 :
  Permutation (map (pfact (regions g1)) (parts g1)) (map (pfact (regions g2)) (parts g2)) ->
  rg_sd g1 = rg_sd g2.
Proof.
  intros HP. unfold rg_sd.
  change (pairs_ok (map (part_fact g1) (parts g1)) = pairs_ok (map (part_fact g2) (parts g2))).
  apply pairs_ok_perm.
  rewrite (map_ext (part_fact g1) (fun p => cfact (pfact (regions g1) p))) by apply part_fact_pfact.
  rewrite (map_ext (part_fact g2) (fun p => cfact (pfact (regions g2) p))) by apply part_fact_pfact.
  rewrite <- (map_map (pfact (regions g1)) cfact), <- (map_map (pfact (regions g2)) cfact).
  apply Permutation_map. exact HP.
Qed.

(* ================================================================== *)
(* 10. linear_rg is the region graph of a (left-deep) tree, up to numbering *)
(* ================================================================== *)
Fixpoint lin_from (t : stree) (rest : list nat) : stree :=
  match rest with [] => t | v :: r => lin_from (Split [t; Leaf [v]]) r end.
(* ((({v0} + {v1}) + {v2}) + ...) *)
Definition lin_tree (ord : list nat) : stree :=
  match ord with [] => Leaf [] | v :: r => lin_from (Leaf [v]) r end.

Fixpoint chain (s : list nat) (rest : list nat) : list (list nat * list (list nat)) :=
  match rest with [] => [] | v :: r => (sunion s [v], [s; [v]]) :: chain (sunion s [v]) r end.

Lemma lin_from_facts rest : forall t,
  flat_map node_fact (subtrees (lin_from t rest)) =
  rev (chain (tscope t) rest) ++ flat_map node_fact (subtrees t).
Proof.
  induction rest as [|v r IH]; intros t; [reflexivity|].
  simpl lin_from. rewrite IH. simpl chain. simpl rev. rewrite <- app_assoc. f_equal.
  rewrite subtrees_Split.
  change (flat_map node_fact (Split [t; Leaf [v]] :: flat_map subtrees [t; Leaf [v]]))
    with ((sunion (tscope t) [v], [tscope t; [v]])
            :: flat_map node_fact (subtrees t ++ ([Leaf [v]] ++ []))).
  rewrite flat_map_app. simpl. rewrite app_nil_r. reflexivity.
Qed.

Lemma lin_from_scope rest : forall t v,
  In v (tscope (lin_from t rest)) <-> In v (tscope t) \/ In v rest.
Proof.
  induction rest as [|u r IH]; intros t v; simpl; [tauto|].
  rewrite IH. change (tscope (Split [t; Leaf [u]])) with (sunion (tscope t) [u]).
  rewrite sunion_In. simpl. tauto.
Qed.

Lemma lin_from_wf rest : forall t, wf_tree t = true -> NoDup rest ->
  (forall v, In v rest -> ~ In v (tscope t)) -> wf_tree (lin_from t rest) = true.
Proof.
  induction rest as [|u r IH]; intros t Hw Hnd Hdis; [exact Hw|].
  simpl. inversion Hnd as [|u' r' Hu Hr]. subst. apply IH.
  - unfold wf_tree. rewrite wfk_Split. rewrite !andb_true_iff. split; [split|].
    + reflexivity.
    + apply forallb_forall. intros x [E|[E|[]]]; subst x; [exact Hw|reflexivity].
    + cbn [all_pairs map forallb]. rewrite !andb_true_r. apply sdisjoint_iff.
      intros v Hv Hv'. simpl in Hv'. destruct Hv' as [E|[]]. subst v.
      apply (Hdis u); [left; reflexivity|exact Hv].
  - exact Hr.
  - intros v Hv. change (tscope (Split [t; Leaf [u]])) with (sunion (tscope t) [u]).
    rewrite sunion_In. intros [H|[E|[]]].
    + apply (Hdis v); [right; exact Hv|exact H].
    + subst v. exact (Hu Hv).
Qed.

Lemma lin_tree_wf ord : NoDup ord -> ord <> [] -> wf_tree (lin_tree ord) = true.
Proof.
  intros Hnd Hne. destruct ord as [|v0 rest]; [congruence|]. simpl.
  inversion Hnd as [|v' r' Hv Hr]. subst. apply lin_from_wf; [reflexivity|exact Hr|].
  intros v Hin [E|[]]. subst v. exact (Hv Hin).
Qed.

Lemma sunion_canon_snoc pre v : sunion (canon pre) [v] = canon (pre ++ [v]).
Proof.
  apply sorted_ext; [apply sunion_sorted; apply sorted_single|apply canon_sorted|].
  intros u. rewrite sunion_In, !canon_In, in_app_iff. tauto.
Qed.

Definition lin_fact (ord : list nat) (k : nat) : list nat * list (list nat) :=
  (canon (firstn (SS (SS k)) ord), [canon (firstn (SS k) ord); [nth (SS k) ord 0]]).

Lemma chain_spec rest : forall pre, pre <> [] ->
  chain (canon pre) rest = map (lin_fact (pre ++ rest)) (seq (length pre - 1) (length rest)).
Proof.
  induction rest as [|v r IH]; intros pre Hne; [reflexivity|].
  assert (Hl : 1 <= length pre) by (destruct pre; simpl; [congruence|lia]).
  simpl chain. simpl length. simpl seq. simpl map. f_equal.
  - unfold lin_fact. replace (SS (length pre - 1)) with (length pre) by lia.
    rewrite !firstn_app, firstn_all, Nat.sub_diag. rewrite firstn_all2 by lia.
    replace (SS (length pre) - length pre) with 1 by lia. simpl firstn. rewrite app_nil_r.
    rewrite nth_middle. rewrite sunion_canon_snoc. reflexivity.
  - rewrite sunion_canon_snoc. rewrite IH by (destruct pre; simpl; congruence).
    rewrite <- app_assoc. simpl app. rewrite app_length. simpl length.
    replace (length pre + 1 - 1) with (SS (length pre - 1)) by lia. reflexivity.
Qed.

Lemma linear_rg_facts ord :
  map (pfact (regions (linear_rg ord))) (parts (linear_rg ord)) =
  map (lin_fact ord) (seq 0 (length ord - 1)).
Proof.
  change (parts (linear_rg ord))
    with (map (fun k => (SS k, [k; length ord + k])) (seq 0 (length ord - 1))).
  rewrite map_map. apply map_ext_in. intros k Hk. apply in_seq in Hk.
  unfold pfact. cbn [fst snd map].
  change (nth (SS k) (regions (linear_rg ord)) []) with (rscope (linear_rg ord) (SS k)).
  change (nth k (regions (linear_rg ord)) []) with (rscope (linear_rg ord) k).
  change (nth (length ord + k) (regions (linear_rg ord)) []) with (rscope (linear_rg ord) (length ord + k)).
  rewrite !lin_rscope_lo by lia. rewrite lin_rscope_hi by lia. reflexivity.
Qed.

(* the partitions of linear_rg, read at scope level, are those of the left-deep tree, listed in the
   opposite order; both graphs have a single root, of the same scope *)
Theorem linear_rg_is_tree ord : ord <> [] ->
  map (pfact (regions (linear_rg ord))) (parts (linear_rg ord)) =
    rev (map (pfact (regions (tree_rg (lin_tree ord)))) (parts (tree_rg (lin_tree ord)))) /\
  map (rscope (linear_rg ord)) (roots (linear_rg ord)) =
    map (rscope (tree_rg (lin_tree ord))) (roots (tree_rg (lin_tree ord))).
Proof.
  intros Hne. destruct ord as [|v0 rest]; [congruence|]. split.
  - rewrite tree_rg_facts, linear_rg_facts. simpl lin_tree. rewrite lin_from_facts.
    simpl flat_map. rewrite app_nil_r, rev_involutive.
    change (tscope (Leaf [v0])) with (canon [v0]).
    rewrite (chain_spec rest [v0]) by congruence. simpl. rewrite Nat.sub_0_r. reflexivity.
  - change (roots (linear_rg (v0 :: rest))) with [length (v0 :: rest) - 1].
    change (roots (tree_rg (lin_tree (v0 :: rest)))) with [0].
    cbn [map]. rewrite tree_rg_root_scope. f_equal.
    rewrite lin_rscope_lo by (simpl; lia).
    replace (SS (length (v0 :: rest) - 1)) with (length (v0 :: rest)) by (simpl; lia).
    rewrite firstn_all.
    apply sorted_ext; [apply canon_sorted|apply tscope_sorted|].
    intros v. rewrite canon_In. cbn [lin_tree]. rewrite lin_from_scope. simpl. tauto.
Qed.

(* so structured decomposability of linear_rg is an instance of the tree theorem *)
Corollary linear_rg_sd_from_tree ord : NoDup ord -> ord <> [] -> rg_sd (linear_rg ord) = true.
Proof.
  intros Hnd Hne. rewrite <- (tree_rg_sd (lin_tree ord) (lin_tree_wf ord Hnd Hne)).
  apply rg_sd_facts_perm. destruct (linear_rg_is_tree ord Hne) as [E _]. rewrite E.
  apply Permutation_sym, Permutation_rev.
Qed.

Example lin4 : lin_tree [2;0;3;1] = Split [Split [Split [Leaf [2]; Leaf [0]]; Leaf [3]]; Leaf [1]].
Proof. reflexivity. Qed.
Example lin4_rg : tree_rg (lin_tree [2;0;3;1]) =
  mkRG [[0;1;2;3]; [0;2;3]; [0;2]; [2]; [0]; [3]; [1]] [(0, [1; 6]); (1, [2; 5]); (2, [3; 4])] [0].
Proof. vm_compute. reflexivity. Qed.
Example lin4_model : linear_rg [2;0;3;1] =
  mkRG [[2]; [0;2]; [0;2;3]; [0;1;2;3]; [0]; [3]; [1]] [(1, [0; 4]); (2, [1; 5]); (3, [2; 6])] [3].
Proof. vm_compute. reflexivity. Qed.
Example lin4_ok : wf_tree (lin_tree [2;0;3;1]) = true /\ rg_valid (tree_rg (lin_tree [2;0;3;1])) = true
  /\ rg_sd (tree_rg (lin_tree [2;0;3;1])) = true.
Proof. vm_compute. repeat split. Qed.

(* ================================================================== *)
(* 11. Complements: variables, topological numbering, necessity of wf   *)
(* ================================================================== *)
Theorem tree_rg_vars t : rg_vars (tree_rg t) = tscope t.
Proof.
  unfold rg_vars. apply sorted_ext; [apply sunions_sorted|apply tscope_sorted|].
  intros v. rewrite sunions_In. split.
  - intros [s [Hs Hv]]. simpl in Hs. apply in_map_iff in Hs. destruct Hs as [s' [E Hs']].
    subst s. apply (sub_scope t s' Hs' v Hv).
  - intros Hv. exists (tscope t). split; [|exact Hv]. simpl. apply in_map. apply subtrees_self.
Qed.

(* pre-order numbering is topological: the inputs of a partition come after its region *)
Lemma cparts_topo cs :
  Forall (fun t => forall o p, In p (tparts t o) -> forall j, In j (snd p) -> fst p < j) cs ->
  forall o p, In p (cparts tparts cs o) -> forall j, In j (snd p) -> fst p < j.
Proof.
  induction 1 as [|c cs Hc Hcs IH]; intros o p Hp; [destruct Hp|].
  simpl in Hp. apply in_app_iff in Hp. destruct Hp as [Hp|Hp]; [apply (Hc o p Hp)|apply (IH _ p Hp)].
Qed.

Lemma tparts_topo t : forall o p, In p (tparts t o) -> forall j, In j (snd p) -> fst p < j.
Proof.
  induction t as [l|cs IH] using stree_ind'; intros o p Hp; [destruct Hp|].
  rewrite tparts_Split in Hp. destruct Hp as [E|Hp].
  - subst p. simpl. intros j Hj. apply offs_range in Hj. lia.
  - apply (cparts_topo cs IH _ p Hp).
Qed.

Theorem tree_rg_topological t o ins : In (o, ins) (parts (tree_rg t)) ->
  forall j, In j ins -> o < j < length (regions (tree_rg t)).
Proof.
  intros Hp j Hj. simpl in Hp. split.
  - apply (tparts_topo t 0 (o, ins) Hp j Hj).
  - rewrite tree_rg_length. pose proof (tparts_range t 0 (o, ins) Hp) as [_ Hb].
    specialize (Hb j Hj). lia.
Qed.

(* well-formedness is a local condition on every subtree ... *)
Definition local_ok (k : nat) (t : stree) : bool :=
  match t with
  | Leaf s => negb (sempty s)
  | Split cs => (k <=? length cs) && all_pairs sdisjoint (map tscope cs)
  end.

Lemma wfk_local k t : wfk k t = true <-> forall s, In s (subtrees t) -> local_ok k s = true.
Proof.
  split.
  - intros Hw s Hs. pose proof (sub_wf k t Hw s Hs) as H. destruct s as [l|cs]; [exact H|].
    rewrite wfk_Split, !andb_true_iff in H. destruct H as [[H1 _] H2].
    simpl. rewrite H1, H2. reflexivity.
  - induction t as [l|cs IH] using stree_ind'; intros H.
    + apply (H (Leaf l)). left; reflexivity.
    + pose proof (H (Split cs) (subtrees_self _)) as H0. simpl in H0.
      rewrite andb_true_iff in H0. destruct H0 as [H1 H2].
      rewrite wfk_Split, H1, H2, andb_true_r. simpl. apply forallb_forall. intros c Hc.
      rewrite Forall_forall in IH. apply (IH c Hc). intros s Hs. apply H.
      apply subtrees_Split_In. right. exists c. split; assumption.
Qed.

(* ... and it is NECESSARY for validity: rg_valid (tree_rg t) holds exactly for well-formed trees *)
Theorem tree_rg_valid_iff t : rg_valid (tree_rg t) = wf1_tree t.
Proof.
  apply eq_true_iff_eq. split; [|apply tree_rg_valid1].
  intros Hv. unfold rg_valid in Hv. rewrite !andb_true_iff in Hv.
  destruct Hv as [[[_ Hreg] Hparts] _]. rewrite forallb_forall in Hreg, Hparts.
  apply wfk_local. intros s Hs. destruct s as [l|cs].
  - simpl. assert (Hin : In (tscope (Leaf l)) (regions (tree_rg t)))
      by (apply (in_map tscope (subtrees t) (Leaf l) Hs)).
    specialize (Hreg _ Hin). apply sempty_false in Hreg. simpl in Hreg.
    apply sempty_false. apply (proj1 (canon_nonempty l)). exact Hreg.
  - assert (Hf : In (tscope (Split cs), map tscope cs) (flat_map node_fact (subtrees t))).
    { apply in_flat_map. exists (Split cs). split; [exact Hs|left; reflexivity]. }
    rewrite <- tree_rg_facts in Hf. apply in_map_iff in Hf. destruct Hf as [[o ins] [E Hp]].
    specialize (Hparts _ Hp). unfold part_ok in Hparts. rewrite !andb_true_iff in Hparts.
    destruct Hparts as [[[[[_ Hne] _] _] Hd] _].
    assert (B : map (rscope (tree_rg t)) ins = map tscope cs) by (apply (f_equal snd) in E; exact E).
    rewrite B in Hd. unfold local_ok. rewrite Hd, andb_true_r.
    destruct cs as [|c cs]; [|reflexivity]. destruct ins; [discriminate Hne|discriminate B].
Qed.

(* ================================================================== *)
Check tree_rg_valid.
Check tree_rg_valid1.
Check tree_rg_valid_iff.
Check tree_rg_sd.
Check tree_rg_vars.
Check tree_rg_topological.
Check multi_rg_valid.
Check multi_rg_single.
Check rg_sd_facts_perm.
Check linear_rg_is_tree.
Check lin_tree_wf.
Check linear_rg_sd_from_tree.
Print Assumptions tree_rg_valid.
Print Assumptions tree_rg_valid_iff.
Print Assumptions tree_rg_sd.
Print Assumptions tree_rg_vars.
Print Assumptions tree_rg_topological.
Print Assumptions multi_rg_valid.
Print Assumptions rg_sd_facts_perm.
Print Assumptions linear_rg_is_tree.
Print Assumptions linear_rg_sd_from_tree.
