From Coq Require Import List.
Theorem C01_placeholder : True. Proof. exact I. Qed.
Print Assumptions C01_placeholder.
