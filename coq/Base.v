From Coq Require Import List Lia Ring Ring_theory Bool Arith.
Import ListNotations.

Section Base.
Variable R : Type.
Variables (rO rI : R) (radd rmul : R -> R -> R).
Hypothesis Rth : semi_ring_theory rO rI radd rmul (@eq R).
Add Ring Rring : Rth.
Infix "+" := radd. Infix "*" := rmul.
Notation "0" := rO. Notation "1" := rI.
Variable D : Type.
Definition asg := nat -> D.
Definition upd (y:asg) (v:nat) (d:D) : asg := fun u => if Nat.eqb u v then d else y u.
Definition vec := list R.

Fixpoint dot (a b : vec) : R := match a, b with x::a, y::b => x*y + dot a b | _, _ => 0 end.
Fixpoint had (x y : vec) : vec := match x, y with a::x, b::y => a*b :: had x y | _, _ => [] end.

Definition scale (c : R) (l : vec) : vec := map (rmul c) l.
Definition kron (x y : vec) : vec := flat_map (fun a => scale a y) x.
Fixpoint vadd (x y : vec) : vec :=
  match x, y with a :: x, b :: y => a + b :: vadd x y | [], y => y | x, [] => x end.
Fixpoint vsum (l : vec) : R := match l with [] => 0 | x :: l => x + vsum l end.
(* polynomials as coefficient vectors, lowest degree first *)
Fixpoint conv (p q : vec) : vec :=
  match p with [] => [] | a :: p' => vadd (scale a q) (0 :: conv p' q) end.
Fixpoint pdiff_from (k : R) (p : vec) : vec :=
  match p with [] => [] | c :: r => k * c :: pdiff_from (k + 1) r end.
Definition pdiff1 (p : vec) : vec := match p with [] => [] | _ :: r => pdiff_from 1 r end.
Fixpoint horner (p : vec) (x : R) : R := match p with [] => 0 | c :: r => c + x * horner r x end.

Lemma dot_nil_r w : dot w [] = 0. Proof. destruct w; reflexivity. Qed.
Lemma dot_cons a w v : dot (a :: w) v = a * nth 0 v 0 + dot w (tl v).
Proof. destruct v as [|b v]; simpl; [rewrite dot_nil_r; ring | reflexivity]. Qed.
Lemma nth_tl {A} k (l : list A) d : nth k (tl l) d = nth (S k) l d.
Proof. destruct l; simpl; [destruct k; reflexivity | reflexivity]. Qed.
Lemma nth_had k x y : nth k (had x y) 0 = nth k x 0 * nth k y 0.
Proof. revert k y; induction x as [|a x IH]; intros k [|b y]; simpl.
  - destruct k; ring. - destruct k; ring. - destruct k; ring.
  - destruct k; [reflexivity | apply IH]. Qed.
Lemma length_had x y : length (had x y) = Nat.min (length x) (length y).
Proof. revert y; induction x as [|a x IH]; intros [|b y]; simpl; auto. Qed.

(* abstract integration *)
Variable Int : nat -> (D -> R) -> R.
Hypothesis Int_ext : forall v f g, (forall d, f d = g d) -> Int v f = Int v g.
Hypothesis Int_add : forall v f g, Int v (fun d => f d + g d) = Int v f + Int v g.
Hypothesis Int_scal : forall v c f, Int v (fun d => c * f d) = c * Int v f.

Fixpoint IntL (vs : list nat) (f : asg -> R) (y : asg) : R :=
  match vs with [] => f y | v :: vs' => Int v (fun d => IntL vs' f (upd y v d)) end.
Definition agree (S : list nat) (y y' : asg) := forall u, In u S -> y u = y' u.
Definition dep_on (S : list nat) (f : asg -> R) := forall y y', agree S y y' -> f y = f y'.

Lemma IntL_ext vs f g : (forall y, f y = g y) -> forall y, IntL vs f y = IntL vs g y.
Proof. induction vs as [|v vs IH]; intros H y; simpl; [apply H|]. apply Int_ext; intros d. apply IH, H. Qed.
Lemma IntL_add vs f g y : IntL vs (fun y => f y + g y) y = IntL vs f y + IntL vs g y.
Proof. revert y; induction vs as [|v vs IH]; intros y; simpl; [reflexivity|].
  rewrite <- Int_add. apply Int_ext; intros d; apply IH. Qed.
Lemma IntL_scal vs c f y : IntL vs (fun y => c * f y) y = c * IntL vs f y.
Proof. revert y; induction vs as [|v vs IH]; intros y; simpl; [reflexivity|].
  rewrite <- Int_scal. apply Int_ext; intros d; apply IH. Qed.
Lemma Int_zero v : Int v (fun _ => 0) = 0.
Proof. transitivity (Int v (fun d => 0 * 0)); [apply Int_ext; intros; ring|]. rewrite Int_scal. ring. Qed.
Lemma IntL_zero vs y : IntL vs (fun _ => 0) y = 0.
Proof. revert y; induction vs as [|v vs IH]; intros y; simpl; [reflexivity|].
  transitivity (Int v (fun _ => 0)); [apply Int_ext; intros; apply IH | apply Int_zero]. Qed.

Lemma IntL_dep S vs f : dep_on S f ->
  forall y y', (forall u, In u S -> ~ In u vs -> y u = y' u) -> IntL vs f y = IntL vs f y'.
Proof.
  intros Hf. induction vs as [|v vs IH]; intros y y' H; simpl.
  - apply Hf. intros u Hu. apply H; auto.
  - apply Int_ext; intros d. apply IH. intros u Hu Hn. unfold upd.
    destruct (Nat.eqb_spec u v) as [->|Hne]; [reflexivity|]. apply H; auto. simpl; intros [E|E]; auto.
Qed.

Definition mem v (s:list nat) := existsb (Nat.eqb v) s.
Lemma mem_In v s : mem v s = true <-> In v s.
Proof. unfold mem. rewrite existsb_exists. split; [intros [x [H1 H2]]; apply Nat.eqb_eq in H2; subst; auto| intros; exists v; split; auto; apply Nat.eqb_refl]. Qed.
Lemma mem_app v a b : mem v (a ++ b) = mem v a || mem v b.
Proof. unfold mem. apply existsb_app. Qed.

Lemma IntL_split S1 S2 f1 f2 : dep_on S1 f1 -> dep_on S2 f2 -> (forall u, In u S1 -> ~ In u S2) ->
  forall vs y,
  IntL vs (fun y => f1 y * f2 y) y
  = IntL (filter (fun v => mem v S1) vs) f1 y * IntL (filter (fun v => negb (mem v S1)) vs) f2 y.
Proof.
  intros H1 H2 Hdisj vs. induction vs as [|v vs IH]; intros y; simpl; [reflexivity|].
  destruct (mem v S1) eqn:Ev; simpl.
  - transitivity (Int v (fun d => IntL (filter (fun v => negb (mem v S1)) vs) f2 y
                                  * IntL (filter (fun v => mem v S1) vs) f1 (upd y v d))).
    + apply Int_ext; intros d. rewrite IH.
      replace (IntL (filter (fun v0 => negb (mem v0 S1)) vs) f2 (upd y v d))
         with (IntL (filter (fun v0 => negb (mem v0 S1)) vs) f2 y); [ring|].
      apply (IntL_dep S2); [exact H2|]. intros u Hu _. unfold upd.
      destruct (Nat.eqb_spec u v) as [->|]; [|reflexivity].
      exfalso. apply mem_In in Ev. exact (Hdisj v Ev Hu).
    + rewrite Int_scal. ring.
  - transitivity (Int v (fun d => IntL (filter (fun v => mem v S1) vs) f1 y
                                  * IntL (filter (fun v => negb (mem v S1)) vs) f2 (upd y v d))).
    + apply Int_ext; intros d. rewrite IH.
      replace (IntL (filter (fun v0 => mem v0 S1) vs) f1 (upd y v d))
         with (IntL (filter (fun v0 => mem v0 S1) vs) f1 y); [ring|].
      apply (IntL_dep S1); [exact H1|]. intros u Hu _. unfold upd.
      destruct (Nat.eqb_spec u v) as [->|]; [|reflexivity].
      exfalso. assert (In v S1 -> False) by (intro HH; apply mem_In in HH; congruence). auto.
    + rewrite Int_scal. ring.
Qed.

(* vector-valued integration *)
Definition IntV (vs : list nat) (F : asg -> vec) (L : nat) (y : asg) : vec :=
  map (fun k => IntL vs (fun y' => nth k (F y') 0) y) (seq 0 L).
Lemma length_IntV vs F L y : length (IntV vs F L y) = L.
Proof. unfold IntV. rewrite map_length, seq_length. reflexivity. Qed.
Lemma nth_map_seq {A} (f : nat -> A) (d : A) L k : k < L -> nth k (map f (seq 0 L)) d = f k.
Proof. intros H. rewrite (nth_indep _ d (f 0%nat)) by (rewrite map_length, seq_length; exact H).
  rewrite (map_nth f (seq 0 L) 0%nat k). rewrite seq_nth by exact H. reflexivity. Qed.
Lemma nth_IntV vs F L y k : k < L -> nth k (IntV vs F L y) 0 = IntL vs (fun y' => nth k (F y') 0) y.
Proof. intros H. unfold IntV. rewrite nth_map_seq by exact H. reflexivity. Qed.
Lemma nth_IntV_ge vs F L y k : (forall y, length (F y) = L) -> L <= k ->
  nth k (IntV vs F L y) 0 = IntL vs (fun y' => nth k (F y') 0) y.
Proof. intros HL H. rewrite nth_overflow by (rewrite length_IntV; exact H).
  rewrite (IntL_ext vs _ (fun _ => 0)); [symmetry; apply IntL_zero|].
  intros y'. apply nth_overflow. rewrite HL. exact H. Qed.
Lemma nth_IntV_all vs F L y k : (forall y, length (F y) = L) ->
  nth k (IntV vs F L y) 0 = IntL vs (fun y' => nth k (F y') 0) y.
Proof. intros HL. destruct (Nat.lt_ge_cases k L); [apply nth_IntV; auto | apply nth_IntV_ge; auto]. Qed.

Lemma tl_IntV vs F L y : tl (IntV vs F L y) = IntV vs (fun y => tl (F y)) (pred L) y.
Proof. unfold IntV. destruct L as [|L]; [reflexivity|]. simpl.
  rewrite <- seq_shift, map_map. apply map_ext. intros k. apply IntL_ext. intros y'. symmetry. apply nth_tl. Qed.

Lemma IntL_dot vs w : forall F L y, (forall y, length (F y) = L) ->
  IntL vs (fun y => dot w (F y)) y = dot w (IntV vs F L y).
Proof.
  induction w as [|a w IH]; intros F L y HL.
  - simpl. apply IntL_zero.
  - rewrite dot_cons.
    rewrite (IntL_ext vs _ (fun y => a * nth 0 (F y) 0 + dot w (tl (F y)))) by (intros; apply dot_cons).
    rewrite IntL_add, IntL_scal.
    rewrite (IH (fun y => tl (F y)) (pred L)) by (intros y0; destruct (F y0) eqn:E; specialize (HL y0); rewrite E in HL; simpl in *; subst; reflexivity).
    rewrite tl_IntV. rewrite nth_IntV_all by exact HL. reflexivity.
Qed.

(* ---------- Kronecker product: length and entries ---------- *)
Lemma nth_nil0 k : nth k (@nil R) 0 = 0.
Proof. destruct k; reflexivity. Qed.
Lemma nth_scale k a y : nth k (scale a y) 0 = a * nth k y 0.
Proof. revert k; induction y as [|b y IH]; intros [|k]; simpl; try ring. apply IH. Qed.
Lemma length_scale a y : length (scale a y) = length y.
Proof. apply map_length. Qed.
Lemma kron_cons a x y : kron (a :: x) y = scale a y ++ kron x y.
Proof. reflexivity. Qed.
Lemma kron_nil_r x : kron x [] = [].
Proof. induction x as [|a x IH]; [reflexivity | rewrite kron_cons; exact IH]. Qed.
Lemma length_kron x y : length (kron x y) = (length x * length y)%nat.
Proof. induction x as [|a x IH]; [reflexivity|]. rewrite kron_cons, app_length, length_scale, IH. reflexivity. Qed.
(* entry k of [kron x y] is x_(k / |y|) * y_(k mod |y|); holds for every k and every y (also y = []) *)
Lemma nth_kron k x y : nth k (kron x y) 0 = nth (k / length y) x 0 * nth (k mod length y) y 0.
Proof.
  destruct (Nat.eq_dec (length y) 0%nat) as [Hy0 | Hy].
  - destruct y as [|b y]; [|discriminate]. rewrite kron_nil_r. simpl length.
    rewrite !nth_nil0. ring.
  - revert k; induction x as [|a x IH]; intros k.
    + simpl kron. rewrite !nth_nil0. ring.
    + rewrite kron_cons. destruct (Nat.lt_ge_cases k (length y)) as [Hlt | Hge].
      * rewrite app_nth1 by (rewrite length_scale; exact Hlt).
        rewrite Nat.div_small, Nat.mod_small by exact Hlt. simpl. apply nth_scale.
      * rewrite app_nth2 by (rewrite length_scale; exact Hge). rewrite length_scale, IH.
        assert (Ek : k = (k - length y + 1 * length y)%nat) by lia.
        rewrite Ek at 3 4. rewrite Nat.div_add, Nat.mod_add by exact Hy.
        replace (((k - length y) / length y + 1)%nat) with (S ((k - length y) / length y)) by lia.
        reflexivity.
Qed.
End Base.
