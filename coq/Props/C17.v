From Coq Require Import List.
Theorem C17_placeholder : True. Proof. exact I. Qed.
Print Assumptions C17_placeholder.
