(* C15 — sampling draws from the distribution the circuit encodes
   Property theorems only: each is closed by `exact <lemma>`; proofs live in the imported files. *)
From Coq Require Import List ZArith QArith Qcanon Ring_theory Field_theory Permutation Sorted.
Import ListNotations.
From CK Require Import Base.
From CK Require Import Circ.
From CK Require Import Sampling.
Close Scope Qc_scope. Close Scope Q_scope. Close Scope Z_scope. Open Scope nat_scope.

(* for every ok circuit with univariate inputs over finite domains, the total weight of the ancestral-sampling outcomes consistent with an assignment equals the value of the circuit at that assignment, for every node and unit *)
Theorem C15_sampling_law :
  forall (R : Type) (rO rI : R) (radd rmul : R -> R -> R),
         semi_ring_theory rO rI radd rmul eq ->
         forall (D : Type) (eqD : D -> D -> bool),
         (forall a b : D, eqD a b = true <-> a = b) ->
         forall dom : nat -> list D,
         (forall v : nat, NoDup (dom v)) ->
         forall (y0 : asg D) (c : circuit R D),
         ok R rO D c ->
         univariate R D c ->
         forall y : asg D,
         in_domain D dom y ->
         forall o k : nat,
         o < length c ->
         k < nth o (units R D c) 0 ->
         mass R rO radd D eqD (nth k (nth o (dists R rO rI rmul D dom y0 c) []) []) y =
         nth k (nth o (eval R rO radd rmul D c y) []) rO.
Proof. exact sampling_law. Qed.
Print Assumptions C15_sampling_law.

(* every sampled value lies in the domain of its variable *)
Theorem C15_support :
  forall (R : Type) (rO rI : R) (rmul : R -> R -> R) (D : Type) (dom : nat -> list D) 
           (y0 : asg D) (c : circuit R D) (o k : nat) (p : R * list (nat * D)),
         In p (nth k (nth o (dists R rO rI rmul D dom y0 c) []) []) ->
         forall q : nat * D, In q (snd p) -> In (snd q) (dom (fst q)).
Proof. exact sampling_support. Qed.
Print Assumptions C15_support.

(* every outcome of a node assigns exactly the variables of that node's scope *)
Theorem C15_columns :
  forall (R : Type) (rO rI : R) (rmul : R -> R -> R) (D : Type) (dom : nat -> list D) 
           (y0 : asg D) (c : circuit R D),
         ok R rO D c ->
         forall o k : nat,
         o < length c ->
         forall p : R * list (nat * D),
         In p (nth k (nth o (dists R rO rI rmul D dom y0 c) []) []) ->
         forall v : nat, In v (map fst (snd p)) <-> In v (nth o (scopes R D c) []).
Proof. exact sampling_columns. Qed.
Print Assumptions C15_columns.
