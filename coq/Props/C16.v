(* C16 — region-graph constructions are valid
   Property theorems only: each is closed by `exact <lemma>`; proofs live in the imported files. *)
From Coq Require Import List ZArith QArith Qcanon Ring_theory Field_theory Permutation Sorted.
Import ListNotations.
From CK Require Import Base.
From CK Require Import Scalar.
From CK Require Import Tensor.
From CK Require Import Pexpr.
From CK Require Import Exec.
From CK Require Import Struct.
From CK Require Import RG.
From CK Require Import RGProofs.
From CK Require Import RGTree.
Close Scope Qc_scope. Close Scope Q_scope. Close Scope Z_scope. Open Scope nat_scope.

(* the executable validity predicate holds exactly when: roots cover all variables, every region is non-empty, every partition splits its region into non-empty pairwise-disjoint regions covering it *)
Theorem C16_valid_spec :
  forall g : rg, rg_valid g = true <-> Valid g.
Proof. exact rg_valid_spec. Qed.
Print Assumptions C16_valid_spec.

(* the structured-decomposability flag holds exactly when partitions of the same scope split it into the same set of sub-scopes *)
Theorem C16_sd_flag :
  forall g : rg,
         rg_sd g = true <->
         (forall p q : nat * list nat,
          In p (parts g) ->
          In q (parts g) ->
          set_eq (rscope g (fst p)) (rscope g (fst q)) ->
          same_split (map (rscope g) (snd p)) (map (rscope g) (snd q))).
Proof. exact rg_sd_spec. Qed.
Print Assumptions C16_sd_flag.

(* the fully-factorised region graph is valid, structured-decomposable and over variables 0..n-1, for every n and number of repetitions *)
Theorem C16_fully_factorized :
  forall n reps : nat,
         1 <= n ->
         1 <= reps ->
         rg_valid (ff_rg n reps) = true /\ rg_sd (ff_rg n reps) = true /\ rg_vars (ff_rg n reps) = seq 0 n.
Proof. exact ff_valid. Qed.
Print Assumptions C16_fully_factorized.

(* the linear-tree region graph is valid and structured-decomposable over exactly the variables of its ordering, for every duplicate-free ordering *)
Theorem C16_linear_tree :
  forall ord : list nat,
         NoDup ord ->
         ord <> [] ->
         rg_valid (linear_rg ord) = true /\
         rg_sd (linear_rg ord) = true /\ (forall v : nat, In v (rg_vars (linear_rg ord)) <-> In v ord).
Proof. exact linear_valid. Qed.
Print Assumptions C16_linear_tree.

(* EVERY tree-shaped region graph (recursive splitting of a scope into >= 2 pairwise disjoint non-empty parts: RandomBinaryTree with one repetition, LinearTree, QuadTree, tree2rg / Chow-Liu) is valid, for all trees *)
Theorem C16_tree_valid :
  forall t : stree, wf_tree t = true -> rg_valid (tree_rg t) = true.
Proof. exact tree_rg_valid. Qed.
Print Assumptions C16_tree_valid.

(* validity of a tree-shaped graph is exactly: leaves non-empty, no empty split, siblings pairwise disjoint *)
Theorem C16_tree_valid_iff :
  forall t : stree, rg_valid (tree_rg t) = wf1_tree t.
Proof. exact tree_rg_valid_iff. Qed.
Print Assumptions C16_tree_valid_iff.

(* ... and structured-decomposable (needs >= 2 children per split: RGTree.unary_ex is the counterexample otherwise) *)
Theorem C16_tree_structured_decomposable :
  forall t : stree, wf_tree t = true -> rg_sd (tree_rg t) = true.
Proof. exact tree_rg_sd. Qed.
Print Assumptions C16_tree_structured_decomposable.

(* several repetitions sharing only the root region (num_repetitions > 1) are valid (in general not structured-decomposable: RGTree.two_reps_not_sd) *)
Theorem C16_repetitions_valid :
  forall css : list (list stree), wf_multi css = true -> rg_valid (multi_rg css) = true.
Proof. exact multi_rg_valid. Qed.
Print Assumptions C16_repetitions_valid.

(* the structured-decomposability flag depends only on the multiset of scope-level partitions, not on the numbering of regions or the order of partitions *)
Theorem C16_sd_numbering_independent :
  forall g1 g2 : rg,
         Permutation (map (pfact (regions g1)) (parts g1)) (map (pfact (regions g2)) (parts g2)) ->
         rg_sd g1 = rg_sd g2.
Proof. exact rg_sd_facts_perm. Qed.
Print Assumptions C16_sd_numbering_independent.

(* partitions of a tree-shaped graph refer to later regions only (acyclic) *)
Theorem C16_tree_topological :
  forall (t : stree) (o : nat) (ins : list nat),
         In (o, ins) (parts (tree_rg t)) -> forall j : nat, In j ins -> o < j < length (regions (tree_rg t)).
Proof. exact tree_rg_topological. Qed.
Print Assumptions C16_tree_topological.
