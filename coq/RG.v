(* RG.v — executable model of region graphs (cirkit.templates.region_graph.graph):
   validity, structured-decomposability flag, and two constructions. Definitions only. *)
From Coq Require Import ZArith QArith Qcanon List Bool Arith Lia.
Import ListNotations.
From CK Require Import Base Scalar Tensor Pexpr Exec.
Close Scope Qc_scope. Close Scope Q_scope. Close Scope Z_scope.
Open Scope nat_scope.

(* regions are scopes (canonical lists); a partition is (index of its parent region, indices of its input regions) *)
Record rg := mkRG { regions : list (list nat); parts : list (nat * list nat); roots : list nat }.

Definition rscope (g : rg) (i : nat) : list nat := nth i (regions g) [].
Definition part_ok (g : rg) (p : nat * list nat) : bool :=
  let '(o, ins) := p in
  let n := length (regions g) in
  (o <? n) && negb (sempty ins) && forallb (fun j => j <? n) ins
  && forallb (fun j => negb (sempty (rscope g j))) ins
  && all_pairs sdisjoint (map (rscope g) ins)
  && seqb (sunions (map (rscope g) ins)) (canon (rscope g o)).
Definition rg_vars (g : rg) : list nat := sunions (regions g).
Definition rg_valid (g : rg) : bool :=
  negb (sempty (roots g))
  && forallb (fun r => r <? length (regions g)) (roots g)
  && forallb (fun s => negb (sempty s)) (regions g)
  && forallb (part_ok g) (parts g)
  && seqb (sunions (map (rscope g) (roots g))) (rg_vars g).
(* structured decomposability: partitions of the same scope split it into the same set of scopes *)
Definition part_fact (g : rg) (p : nat * list nat) : list nat * list (list nat) :=
  (canon (rscope g (fst p)), fcanon (map (fun j => canon (rscope g j)) (snd p))).
Definition rg_sd (g : rg) : bool :=
  let fs := map (part_fact g) (parts g) in
  forallb (fun p => all_same (facts_of (fst p) fs)) fs.

(* fully factorized: root over 0..n-1, one partition into the n singleton regions (per repetition) *)
Definition ff_rg (n reps : nat) : rg :=
  if n =? 1 then mkRG [[0]] [] [0]
  else
    mkRG (seq 0 n :: concat (map (fun _ => map (fun v => [v]) (seq 0 n)) (seq 0 reps)))
         (map (fun r => (0, map (fun v => 1 + r * n + v) (seq 0 n))) (seq 0 reps))
         [0].

(* linear tree over an ordering v_0 .. v_{n-1}: region k = {v_0..v_k}; partition of region k (k>=1)
   into region k-1 and the singleton {v_k} *)
Definition prefixes (ord : list nat) : list (list nat) := map (fun k => canon (firstn (Datatypes.S k) ord)) (seq 0 (length ord)).
Definition linear_rg (ord : list nat) : rg :=
  let n := length ord in
  mkRG (prefixes ord ++ map (fun v => [v]) (tl ord))
       (map (fun k => (Datatypes.S k, [k; n + k])) (seq 0 (n - 1)))
       [n - 1].
