"""C04 — multiply returns the pointwise product or refuses."""
import numpy as np
import traceback

import cirkit.symbolic.functional as SF
from cirkit.symbolic.circuit import StructuralPropertyError
from cirkit.utils.scope import Scope

import evalc
import export
import gen
import opkit
from cases import CaseSet, rng_for, pick_semiring

PID = "C04"
KINDS = ["emb", "cat_probs", "cat_logits", "cat_softmax", "cat_softmax0", "gau", "poly"]


class _G:
    pass


def kron_pair(rng):
    """two circuits over the same variables whose Kronecker product layers have DIFFERENT numbers of units (2 x 3, 3 x 2, ...):
    the product needs the unit-permutation layer of multiply_kronecker_layers"""
    from cirkit.symbolic import layers as L
    from cirkit.symbolic import parameters as P
    from cirkit.symbolic.circuit import Circuit
    n = rng.choice([2, 2, 3])
    vs = gen.VAR_SETS[rng.choice(["dense", "sparse"])](n)
    N = 2
    Ks = rng.choice([(2, 3), (3, 2), (2, 3), (1, 3), (2, 2)]) if n == 2 else rng.choice([(1, 2), (2, 1), (2, 2)])
    out = []
    for K in Ks:
        g = _G()
        g.doms = {v: ("disc", N) for v in vs}
        ins = [L.EmbeddingLayer(Scope([v]), K, num_states=N, weight=P.Parameter.from_input(gen.tensor(gen.dy_array(rng, (K, N), 1, 8)))) for v in vs]
        kl = L.KroneckerLayer(K, arity=n)
        Ko = rng.choice([1, 2])
        sl = L.SumLayer(K ** n, Ko, arity=1, weight=P.Parameter.from_input(gen.tensor(gen.dy_array(rng, (Ko, K ** n), 1, 8))))
        g.desc = {"family": "kronecker-units", "K": K, "vars": list(vs), "kinds": ["emb"] * n, "sums": 1, "prods": 1, "arity": [1], "nout": 1}
        g.o = None
        out.append((Circuit(ins + [kl, sl], {kl: ins, sl: [kl]}, [sl]), g))
    return out[0][0], out[1][0], out[0][1], out[1][1], True


def build_pair(rng, mode):
    if mode == "kron":
        return kron_pair(rng)
    monotone = rng.random() < 0.5
    kinds = [rng.choice(KINDS)] if rng.random() < 0.5 else KINDS
    if rng.random() < 0.25:
        kinds = ["gau"]
    o = gen.random_opts(rng, kinds=kinds, monotone=monotone, regular=True, sd=True)
    o["nvars"] = rng.choice([1, 2, 2, 3])
    o["nout"] = rng.choice([1, 1, 2, 3])
    o["force_nout"] = True
    if o["prod"] == "any":
        o["prod"] = "had"
    o["K"] = rng.choice([1, 2])
    o["max_alt"] = 2
    sc1, g1 = gen.gen_circuit(rng, **o)
    if mode == "square":
        return sc1, sc1, g1, g1, monotone
    o2 = dict(o, like=g1, K=rng.choice([1, 2]), nout=rng.choice([1, 2, 2, 3]) if o["nout"] > 1 else rng.choice([1, 1, 2]))
    sc2, g2 = gen.gen_circuit(rng, **o2)
    return sc1, sc2, g1, g2, monotone


def one_case(rep, cs, seed, i):
    rng = rng_for(seed, PID, i)
    mode = rng.choice(["pair", "pair", "pair", "square", "evidence", "chain", "kron"])
    sc1, sc2, g1, g2, monotone = build_pair(rng, mode)
    sem = pick_semiring(rng, monotone)
    fold, opt = rng.choice(evalc.FLAGS)
    desc = {"i": i, "seed": seed, "mode": mode, "sem": sem, "fold": fold, "opt": opt, "c1": g1.desc, "c2": g2.desc}
    rep.count("mode:" + mode)
    rep.count("semiring:" + sem)
    rep.count(f"flags:{int(fold)}{int(opt)}")
    for a in g1.desc["arity"] + g2.desc["arity"]:
        rep.count(f"sum-arity:{a}")
    scope = sorted(sc1.scope._set)
    a, b = sc1, sc2
    if mode == "evidence" and len(scope) >= 2:
        v = rng.choice(scope)
        dom = g1.doms[v]
        val = rng.randrange(dom[1]) if dom[0] == "disc" else gen.dy(rng, -4, 4)
        a = SF.evidence(sc1, {v: val})
        b = SF.evidence(sc2, {v: val})
    try:
        sp = SF.multiply(a, b)
    except Exception as e:
        rep.count("refused:" + type(e).__name__)
        # refusing is allowed by the property; nothing to compare but the model's answer is recorded
        rep.case(desc, False)
        return
    operands = [a, b]
    if mode == "chain":
        o3 = dict(g1.o, like=g1, K=1, nout=1)
        sc3, g3 = gen.gen_circuit(rng, **o3)
        try:
            sp2 = SF.multiply(sp, sc3)
            a, b, sp = sp, sc3, sp2
            operands = [a, b]
        except Exception as e:
            rep.count("refused-chain:" + type(e).__name__)
    rest = sorted(sp.scope._set)
    ys = gen.sample_inputs(rng, g1.doms, rest, 3, exhaustive_limit=6, nonneg=(sem == 'lse-sum'))
    try:
        ok, detail = opkit.oracle_multiply(a, b, sp, ys, sem, fold, opt)
    except Exception as e:
        ok, detail = False, {"exception": repr(e)[:300], "traceback": traceback.format_exc()[-1500:]}
    if ok is False:
        sig = "multiply-wrong-value" if "exception" not in detail else "multiply-compile-exception:" + detail["exception"].split("(")[0]
        rep.violation(sig, "compiled multiply(c1,c2) differs from the Kronecker product of the compiled operands' outputs",
                      {"case": desc, "inputs": ys, **detail})
    ex = export.Exporter()
    try:
        ta, tb, tp = ex.circuit(a), ex.circuit(b), ex.circuit(sp)
    except export.ExportError as e:
        rep.violation("export-error", f"exporter cannot represent the implementation's result: {e}", {"case": desc}, found_input=False)
        return
    tv = opkit.torch_vals([a, b], sp, ys, sem, fold, opt)
    parts = [
        "res_code (multiply_m a b)",
        "eq_den_res (multiply_m a b) p ys",
        "product_check a b p ys",
        (f"den_vs p ys {tv}" if tv is not None else "2"),
        "learn_subset p [a; b]",
    ]
    term = f"let a := {ta} in let b := {tb} in let p := {tp} in let ys := {export.ex_asgs(ys)} in [" + "; ".join(parts) + "]"

    def interp(res, desc=desc, ys=ys):
        rc, eqm, pc, dv, ls = res
        rep.count(f"coq:eq_model={eqm}")
        rep.count(f"coq:product={pc}")
        if rc != 0:
            rep.violation("multiply-model-refuses", "the model refuses operands the implementation multiplies",
                          {"case": desc, "model_error": rc}, found_input=False)
        if eqm == 0:
            rep.violation("multiply-corr", "multiply_m (model) and cirkit multiply disagree on the denoted function",
                          {"case": desc, "inputs": ys}, found_input=False)
        if pc == 0:
            rep.violation("multiply-wrong-value", "the circuit returned by multiply is not the product of its operands (exact model evaluation)",
                          {"case": desc, "inputs": ys})
        if dv == 0:
            rep.violation("multiply-compiled-vs-den", "compiled multiply(c1,c2) differs from the model's denotation of it", {"case": desc, "inputs": ys})
        if ls == 0:
            rep.violation("multiply-new-learnable", "multiply introduced a learnable tensor not owned by an operand", {"case": desc})

    cs.add(desc, term, interp, nontrivial=True)


def run(rep, tier, seed, replay=None):
    n = 60 if tier == "quick" else 600
    cs = CaseSet(rep, PID)
    if replay is not None:
        c = replay["replay"].get("case", {})
        one_case(rep, cs, c.get("seed", seed), c.get("i", 0))
        cs.run()
        return
    for i in range(n):
        one_case(rep, cs, seed, i)
    cs.run(shard=max(4, 60 // 14))  # shard size of the quick tier: thorough runs use more files, not longer ones
