(* C14 — parameter operators: algebraic laws the operator rules rest on
   Property theorems only: each is closed by `exact <lemma>`; proofs live in the imported files. *)
From Coq Require Import List ZArith QArith Qcanon Ring_theory Field_theory Permutation Sorted.
Import ListNotations.
From CK Require Import Base.
From CK Require Import Circ.
From CK Require Import Multiply.
From CK Require Import Algebra.
From CK Require Import Hom.
From CK Require Import Scalar.
From CK Require Import Tensor.
From CK Require Import Pexpr.
From CK Require Import PShapes.
Close Scope Qc_scope. Close Scope Q_scope. Close Scope Z_scope. Open Scope nat_scope.

(* coefficient convolution evaluates to the product of the polynomials *)
Theorem C14_polynomial_product :
  forall (R : Type) (rO rI : R) (radd rmul : R -> R -> R),
         semi_ring_theory rO rI radd rmul eq ->
         forall (p q : Base.vec R) (x : R),
         horner R rO radd rmul (conv R rO radd rmul p q) x =
         rmul (horner R rO radd rmul p x) (horner R rO radd rmul q x).
Proof. exact horner_conv. Qed.
Print Assumptions C14_polynomial_product.

(* ... row pairs in Kronecker order *)
Theorem C14_polynomial_product_rows :
  forall (R : Type) (rO rI : R) (radd rmul : R -> R -> R),
         semi_ring_theory rO rI radd rmul eq ->
         forall (P Q : list (Base.vec R)) (x : R),
         map (fun r : Base.vec R => horner R rO radd rmul r x)
           (flat_map (fun p : Base.vec R => map (conv R rO radd rmul p) Q) P) =
         kron R rmul (map (fun p : Base.vec R => horner R rO radd rmul p x) P)
           (map (fun q : Base.vec R => horner R rO radd rmul q x) Q).
Proof. exact horner_conv_rows. Qed.
Print Assumptions C14_polynomial_product_rows.

(* the outer product along axis 0 of two matrices, read at a column, is the Kronecker product of the two columns *)
Theorem C14_outer_product_columns :
  forall (R : Type) (rO rI : R) (radd rmul : R -> R -> R),
         semi_ring_theory rO rI radd rmul eq ->
         forall (A B : list (Base.vec R)) (s : nat),
         col R rO s (flat_map (fun a : Base.vec R => map (fun b : Base.vec R => had R rmul a b) B) A) =
         kron R rmul (col R rO s A) (col R rO s B).
Proof. exact col_outer. Qed.
Print Assumptions C14_outer_product_columns.

(* reduce-sum over the state axis is the sum of the lookups over all states *)
Theorem C14_reduce_sum_states :
  forall (R : Type) (rO : R) (radd : R -> R -> R) (row : Base.vec R),
         vsum R rO radd (map (fun s : nat => nth s row rO) (seq 0 (length row))) = vsum R rO radd row.
Proof. exact vsum_states. Qed.
Print Assumptions C14_reduce_sum_states.

(* mixed-product law of the Kronecker product *)
Theorem C14_kronecker_mixed_product :
  forall (R : Type) (rO rI : R) (radd rmul : R -> R -> R),
         semi_ring_theory rO rI radd rmul eq ->
         forall w1 w2 x1 x2 : Base.vec R,
         length w1 = length x1 ->
         length w2 = length x2 ->
         dot R rO radd rmul (kron R rmul w1 w2) (kron R rmul x1 x2) =
         rmul (dot R rO radd rmul w1 x1) (dot R rO radd rmul w2 x2).
Proof. exact dot_kron. Qed.
Print Assumptions C14_kronecker_mixed_product.

(* entry i of the differentiated coefficients is (i+1) times coefficient i+1 *)
Theorem C14_polynomial_differential :
  forall (R : Type) (rO rI : R) (radd rmul : R -> R -> R),
         semi_ring_theory rO rI radd rmul eq ->
         forall (i : nat) (p : Base.vec R),
         nth i (pdiff1 R rI radd rmul p) rO = nmul R rO radd (Datatypes.S i) (nth (Datatypes.S i) p rO).
Proof. exact nth_pdiff1. Qed.
Print Assumptions C14_polynomial_differential.

(* for every parameter expression (all node types of coq/Pexpr.v, any nesting): if the symbolic shape rule pshape (the model of each node's declared `shape`) gives s and evaluation is defined, the evaluated tensor is rectangular with exactly shape s *)
Theorem C14_shape_inference :
  forall (e : pexpr) (s : list nat) (t : tn), pshape e = Some s -> peval e = Some t -> tshape t = Some s.
Proof. exact peval_shape. Qed.
Print Assumptions C14_shape_inference.

(* every unary node applied to a tensor of positive shape s yields a tensor of the shape its rule declares (reductions drop the axis, index selects len(indices) along the axis, softmax / entrywise keep s) *)
Theorem C14_unary_shape :
  forall (op : unop) (s s' : list nat) (t t' : tn),
         pos s = true ->
         tshape t = Some s -> unop_shape op s = Some s' -> eval_unop op t = Some t' -> tshape t' = Some s'.
Proof. exact eval_unop_shape. Qed.
Print Assumptions C14_unary_shape.

(* idem for binary nodes (sum, Hadamard, Kronecker, outer product / sum along an axis, polynomial product, Gaussian product std) *)
Theorem C14_binary_shape :
  forall (op : binop) (sa sb s : list nat) (a b t : tn),
         pos sa = true ->
         pos sb = true ->
         tshape a = Some sa ->
         tshape b = Some sb -> binop_shape op sa sb = Some s -> eval_binop op a b = Some t -> tshape t = Some s.
Proof. exact eval_binop_shape. Qed.
Print Assumptions C14_binary_shape.

(* on the algebraic fragment evaluation of a well-shaped expression is always defined and has the inferred shape *)
Theorem C14_algebraic_total :
  forall (e : pexpr) (s : list nat),
         alg e = true -> pshape e = Some s -> exists t : tn, peval e = Some t /\ tshape t = Some s.
Proof. exact alg_peval_defined. Qed.
Print Assumptions C14_algebraic_total.
