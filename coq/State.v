(* State.v — model of saving / loading the parameters of a compiled circuit (C19): a state dictionary is an
   association list from names (numbered paths) to values; loading overwrites the values of equally named
   entries. *)
From Coq Require Import List Lia Bool Arith.
Import ListNotations.

Section State.
Variable V : Type.
Definition sdict := list (nat * V).
Fixpoint lookup (k : nat) (d : sdict) : option V :=
  match d with [] => None | (k', v) :: r => if Nat.eqb k k' then Some v else lookup k r end.
Definition load (d s : sdict) : sdict :=
  map (fun kv => (fst kv, match lookup (fst kv) d with Some v => v | None => snd kv end)) s.
Definition names (s : sdict) : list nat := map fst s.

Lemma lookup_in_nodup k v d : NoDup (names d) -> In (k, v) d -> lookup k d = Some v.
Proof.
  induction d as [|[k' v'] d IH]; intros Hn Hin; simpl in *; [contradiction|].
  inversion Hn as [|? ? Hnotin Hn']; subst.
  destruct Hin as [E|Hin].
  - inversion E; subst. rewrite Nat.eqb_refl. reflexivity.
  - destruct (Nat.eqb_spec k k') as [->|Hne].
    + exfalso. apply Hnotin. unfold names. apply in_map_iff. exists (k', v). split; [reflexivity | exact Hin].
    + apply IH; assumption.
Qed.

(* names unique and equal (same symbolic circuit, same flags): loading a saved dictionary into any other
   instance reproduces the saved instance exactly, whatever the other instance held *)
Theorem load_save s s' : names s = names s' -> NoDup (names s) -> load s s' = s.
Proof.
  intros Hn Hd.
  assert (H : forall l l' : sdict, names l = names l' -> (forall kv, In kv l -> In kv s) -> load s l' = l).
  { induction l as [|[k v] l IH]; intros [|[k' v'] l'] Hnl Hin; simpl in *; try discriminate; [reflexivity|].
    inversion Hnl; subst. f_equal.
    - rewrite (lookup_in_nodup k' v s Hd) by (apply Hin; auto). reflexivity.
    - apply IH; [assumption | intros kv Hkv; apply Hin; auto]. }
  apply H; [exact Hn | auto].
Qed.
Lemma load_names d s : names (load d s) = names s.
Proof. unfold names, load. rewrite map_map. reflexivity. Qed.
(* every entry of the loaded instance that is named in the dictionary takes the dictionary's value *)
Lemma load_lookup d s k v : NoDup (names s) -> lookup k d = Some v -> In k (names s) -> lookup k (load d s) = Some v.
Proof.
  intros Hs Hd Hk. induction s as [|[k' v'] s IH]; simpl in *; [contradiction|].
  inversion Hs as [|? ? Hnotin Hs']; subst.
  destruct (Nat.eqb_spec k k') as [->|Hne].
  - rewrite Hd. reflexivity.
  - destruct Hk as [E|Hk]; [congruence|]. apply IH; assumption.
Qed.
End State.
