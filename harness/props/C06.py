"""C06 — evidence and concatenate implement conditioning and output stacking."""
import traceback

import numpy as np

import cirkit.symbolic.functional as SF
from cirkit.utils.scope import Scope

import evalc
import export
import gen
import opkit
from cases import CaseSet, rng_for, pick_semiring

PID = "C06"
KINDS = ["emb", "cat_probs", "cat_logits", "cat_softmax", "cat_softmax0", "bin", "gau", "poly"]


class _G:
    pass


def gauss_circuit(rng):
    from cirkit.symbolic import layers as L
    from cirkit.symbolic import parameters as P
    from cirkit.symbolic.circuit import Circuit
    K = rng.choice([1, 2])
    n = rng.choice([2, 3, 4])
    g = _G()
    g.doms = {v: ("real",) for v in range(n)}
    parts = [L.GaussianLayer(Scope([v]), K, mean=P.Parameter.from_input(gen.tensor(gen.dy_array(rng, (K,), -4, 4))),
                             stddev=P.Parameter.from_input(gen.tensor(gen.dy_array(rng, (K,), 2, 8)))) for v in range(n)]
    pl = L.HadamardLayer(K, arity=n)
    sl = L.SumLayer(K, 1, arity=1, weight=P.Parameter.from_input(gen.tensor(gen.dy_array(rng, (1, K), 1, 8))))
    g.desc = {"family": "homogeneous-gaussians", "kinds": ["gau"] * n, "sums": 1, "prods": 1, "arity": [1], "K": K, "nout": 1}
    return Circuit(parts + [pl, sl], {pl: parts, sl: [pl]}, [sl]), g


def evidence_case(rep, cs, seed, i):
    rng = rng_for(seed, PID, i)
    monotone = rng.random() < 0.5
    o = gen.random_opts(rng, kinds=KINDS, monotone=monotone)
    if i % 4 == 0:  # many different input kinds / sizes in one frontier, observed together
        o["nvars"] = 4
        o["prod"] = "had"
    homog = i % 5 == 1  # several continuous inputs of identical structure in one frontier (one fold group), observed with a mix of Python ints and floats
    if homog:
        sc, g = gauss_circuit(rng)
        monotone = True
    else:
        sc, g = gen.gen_circuit(rng, **o)
    scope = sorted(sc.scope._set)
    k = rng.randint(1, len(scope)) if i % 5 != 1 else rng.randint(max(1, len(scope) - 1), len(scope))
    ov = sorted(rng.sample(scope, k))
    obs = {}
    for v in ov:
        d = g.doms[v]
        if d[0] == "disc":
            obs[v] = rng.randrange(d[1])
        elif rng.random() < 0.35:
            obs[v] = rng.randint(0 if monotone else -2, 2)       # an integer-typed observation of a continuous variable
        else:
            obs[v] = gen.dy(rng, 0 if monotone else -6, 6, 4)
    if len(obs) >= 2 and rng.random() < 0.6:
        ks = list(obs)      # the observation is a mapping: its insertion order is arbitrary (here: shuffled, not ascending)
        rng.shuffle(ks)
        obs = {k_: obs[k_] for k_ in ks}
    sem = pick_semiring(rng, monotone)
    fold, opt = rng.choice(evalc.FLAGS)
    if homog and rng.random() < 0.7:
        fold = True
    desc = {"i": i, "seed": seed, "op": "evidence", "obs": obs, "sem": sem, "fold": fold, "opt": opt, **g.desc}
    rep.count("op:evidence")
    rep.count("semiring:" + sem)
    rep.count(f"flags:{int(fold)}{int(opt)}")
    rep.count("complete-obs" if len(ov) == len(scope) else "partial-obs")
    try:
        se = SF.evidence(sc, obs)
    except Exception as e:
        rep.violation("evidence-raises:" + type(e).__name__, "evidence raised on a valid observation", {"case": desc, "exception": repr(e)[:300]})
        return
    rest = [v for v in scope if v not in ov]
    if sorted(se.scope._set) != rest:
        rep.violation("evidence-scope", "scope of evidence(c, obs) is not scope(c) minus the observed variables",
                      {"case": desc, "observed": sorted(se.scope._set), "expected": rest})
    ys = gen.sample_inputs(rng, g.doms, rest, 3, nonneg=(sem == "lse-sum"))
    try:
        ok, detail = opkit.oracle_evidence(sc, se, obs, ys, sem, fold, opt)
    except Exception as e:
        ok, detail = False, {"exception": repr(e)[:300], "traceback": traceback.format_exc()[-1500:]}
    if ok is False:
        sig = "evidence-wrong-value" if "exception" not in detail else "evidence-compile-exception:" + detail["exception"].split("(")[0]
        rep.violation(sig, "compiled evidence(c, obs) differs from compiled c with the observed variables fixed", {"case": desc, "inputs": ys, **detail})
    # evidence followed by a further operator (integration of what is left)
    follow = None
    if rest and all(kd in ("emb", "cat_probs", "cat_logits", "cat_softmax", "gau") for kd in g.desc["kinds"]):
        try:
            follow = SF.integrate(se)
        except Exception:
            follow = None
    ex = export.Exporter()
    try:
        tc, te = ex.circuit(sc), ex.circuit(se)
    except export.ExportError as e:
        rep.violation("export-error", f"exporter cannot represent the implementation's result: {e}", {"case": desc}, found_input=False)
        return
    tv = opkit.torch_vals([sc], se, ys, sem, fold, opt, width=evalc.width_of(sc))
    tobs = export.ex_asg(obs)
    parts = [
        f"res_code (evidence_m {tobs} c)",
        f"eq_den_res (evidence_m {tobs} c) e ys",
        f"evidence_check c e {tobs} ys",
        (f"den_vs e ys {tv}" if tv is not None else "2"),
        "learn_subset e [c]",
        f"scope_check e {export.ex_nats(rest)}",
    ]
    term = f"let c := {tc} in let e := {te} in let ys := {export.ex_asgs(ys)} in [" + "; ".join(parts) + "]"

    def interp(res, desc=desc, ys=ys):
        rc, eqm, ec, dv, ls, scs = res
        rep.count(f"coq:eq_model={eqm}")
        rep.count(f"coq:evidence={ec}")
        if rc != 0:
            rep.violation("evidence-model-refuses", "the model refuses an observation the implementation accepts", {"case": desc, "model_error": rc}, found_input=False)
        if eqm == 0:
            rep.violation("evidence-corr", "evidence_m (model) and cirkit evidence disagree on the denoted function", {"case": desc, "inputs": ys}, found_input=False)
        if ec == 0:
            rep.violation("evidence-wrong-value", "evidence(c, obs) is not c with the observed variables fixed (exact model evaluation)", {"case": desc, "inputs": ys})
        if dv == 0:
            rep.violation("evidence-compiled-vs-den", "compiled evidence(c, obs) differs from the model's denotation of it", {"case": desc, "inputs": ys})
        if ls == 0:
            rep.violation("evidence-new-learnable", "evidence introduced a learnable tensor", {"case": desc})
        if scs == 0:
            rep.violation("evidence-scope", "scope of evidence(c, obs) is not scope(c) minus the observed variables", {"case": desc})

    cs.add(desc, term, interp, nontrivial=g.desc["sums"] >= 1 and g.desc["prods"] >= 1)


def concat_case(rep, cs, seed, i):
    rng = rng_for(seed, PID + "cat", i)
    monotone = rng.random() < 0.5
    K = rng.choice([1, 2, 3])
    n = rng.choice([2, 2, 3])
    scs, gs = [], []
    doms = {}
    like = None
    for _ in range(n):
        o = gen.random_opts(rng, kinds=KINDS, monotone=monotone, K=K, varset="dense")
        o["nvars"] = min(o["nvars"], 3)
        if like is not None:
            o["like"] = like
        sc, g = gen.gen_circuit(rng, **o)
        like = like or g
        scs.append(sc)
        gs.append(g)
        doms.update(g.doms)
    if rng.random() < 0.3:
        scs.append(scs[0])  # the same operand twice
    sem = pick_semiring(rng, monotone)
    fold, opt = rng.choice(evalc.FLAGS)
    desc = {"i": i, "seed": seed, "op": "concatenate", "n": len(scs), "sem": sem, "fold": fold, "opt": opt, "cs": [g.desc for g in gs]}
    rep.count("op:concatenate")
    try:
        scat = SF.concatenate(scs)
    except Exception as e:
        rep.violation("concatenate-raises:" + type(e).__name__, "concatenate raised", {"case": desc, "exception": repr(e)[:300]})
        return
    allv = sorted(set().union(*[s.scope._set for s in scs]))
    ys = gen.sample_inputs(rng, doms, allv, 3, exhaustive_limit=4, nonneg=(sem == "lse-sum"))
    if len(scat.outputs) != sum(len(s.outputs) for s in scs):
        rep.violation("concatenate-num-outputs", "wrong number of outputs", {"case": desc})
    try:
        ok, detail = opkit.oracle_concat(scs, scat, ys, sem, fold, opt)
    except Exception as e:
        ok, detail = False, {"exception": repr(e)[:300], "traceback": traceback.format_exc()[-1500:]}
    if ok is False:
        sig = "concatenate-wrong-value" if "exception" not in detail else "concatenate-compile-exception:" + detail["exception"].split("(")[0]
        rep.violation(sig, "compiled concatenate(cs) differs from the stacked outputs of the compiled operands", {"case": desc, "inputs": ys, **detail})
    ex = export.Exporter()
    try:
        tcs = [ex.circuit(s) for s in scs]
        tcat = ex.circuit(scat)
    except export.ExportError as e:
        rep.violation("export-error", f"exporter cannot represent the implementation's result: {e}", {"case": desc}, found_input=False)
        return
    lst = "[" + "; ".join(tcs) + "]"
    parts = ["eq_den_res (concatenate_m cs) cc ys", "concat_check cs cc ys", "learn_subset cc cs"]
    term = f"let cs := {lst} in let cc := {tcat} in let ys := {export.ex_asgs(ys)} in [" + "; ".join(parts) + "]"

    def interp(res, desc=desc, ys=ys):
        eqm, cc, ls = res
        if eqm == 0:
            rep.violation("concatenate-corr", "concatenate_m (model) and cirkit concatenate disagree", {"case": desc, "inputs": ys}, found_input=False)
        if cc == 0:
            rep.violation("concatenate-wrong-value", "concatenate(cs) does not output the operands' outputs in order (exact model evaluation)", {"case": desc, "inputs": ys})
        if ls == 0:
            rep.violation("concatenate-new-learnable", "concatenate introduced a learnable tensor", {"case": desc})

    cs.add(desc, term, interp, nontrivial=True)


def run(rep, tier, seed, replay=None):
    n = 50 if tier == "quick" else 500
    m = 20 if tier == "quick" else 200
    cs = CaseSet(rep, PID)
    if replay is not None:
        c = replay["replay"].get("case", {})
        (concat_case if c.get("op") == "concatenate" else evidence_case)(rep, cs, c.get("seed", seed), c.get("i", 0))
        cs.run()
        return
    for i in range(n):
        evidence_case(rep, cs, seed, i)
    for i in range(m):
        concat_case(rep, cs, seed, i)
    cs.run(shard=max(4, 50 // 14))  # shard size of the quick tier: thorough runs use more files, not longer ones
