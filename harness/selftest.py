"""Self-test of the machinery (run by setup_cmd): Coq builds, transcendental approximations agree with
Python's math module, the exporter round-trips a tiny circuit."""
import math
import os
import re
import sys

import common


def main():
    ok, log = common.coq_build()
    if not ok:
        print("selftest: Coq build failed\n" + log)
        return 1
    wdir = os.path.join(common.WORK, "selftest")
    os.makedirs(wdir, exist_ok=True)
    fn = os.path.join(wdir, "st.v")
    xs = [(1, 1), (-7, 2), (5, 2), (1, 1000), (9, 4)]
    with open(fn, "w") as f:
        f.write("From Coq Require Import ZArith QArith Qcanon List.\nImport ListNotations.\nFrom CK Require Import Scalar.\n")
        for n, d in xs:
            f.write(f"Eval vm_compute in (this (qexp (Q2Qc ({n}#{d})))).\n")
        for n, d in xs:
            if n > 0:
                f.write(f"Eval vm_compute in (this (qlog (Q2Qc ({n}#{d})))).\n")
                f.write(f"Eval vm_compute in (this (qsqrt (Q2Qc ({n}#{d})))).\n")
    rc, out = common.sh(f"coqc -Q {common.COQ} CK {fn}")
    if rc != 0:
        print("selftest: coqc failed\n" + out)
        return 1
    vals = []
    for m in re.finditer(r"=\s*(\S+)\s*(?:#\s*(\d+))?\s*:\s*Q", out.replace("\n", " ")):
        a, b = m.group(1), m.group(2)
        if a.endswith("%xQ"):
            vals.append(float.fromhex(a[:-3]))
        elif b:
            vals.append(int(a) / int(b))
        else:
            vals.append(float(int(a)))
    exp = [math.exp(n / d) for n, d in xs]
    for n, d in xs:
        if n > 0:
            exp += [math.log(n / d), math.sqrt(n / d)]
    if len(vals) != len(exp) or any(abs(a - b) > 1e-12 * (1 + abs(b)) for a, b in zip(vals, exp)):
        print("selftest: transcendental approximations disagree", vals, exp)
        return 1
    import translate
    tok, tlog = translate.run()
    if not tok:
        print("selftest: translator / GenAgree failed\n" + tlog)
        return 1
    print("selftest ok")
    return 0
