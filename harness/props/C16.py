"""C16 — region-graph constructions are valid and yield well-formed circuits."""
import itertools
import os
import tempfile
import traceback

import numpy as np
import torch

from cirkit.symbolic.layers import HadamardLayer, KroneckerLayer, SumLayer
from cirkit.templates import region_graph as RGM
from cirkit.templates.region_graph import RegionGraph
from cirkit.templates.utils import Parameterization, name_to_input_layer_factory, parameterization_to_factory
from cirkit.utils.scope import Scope

import export
import gen
from cases import CaseSet, rng_for
from props.C08 import spec_preds, spec_sd_ok

PID = "C16"


def make_rg(rng):
    alg = rng.choice(["rbt", "rbt", "linear", "linear", "ff", "quadtree", "quadgraph", "pd", "chowliu"])
    if alg == "rbt":
        n = rng.randint(1, 12)
        maxd = max(1, int(np.floor(np.log2(max(n, 2)))))
        kw = {"depth": rng.choice([None] + list(range(1, maxd + 1))), "num_repetitions": rng.randint(1, 3), "seed": rng.randint(0, 1000)}
        if n == 1:
            kw["depth"] = None
        return alg, (n,), kw, lambda: RGM.RandomBinaryTree(n, **kw)
    if alg == "linear":
        n = rng.randint(1, 10)
        kw = {"num_repetitions": rng.randint(1, 3), "randomize": rng.random() < 0.5, "seed": rng.randint(0, 1000)}
        if rng.random() < 0.3:
            o = list(range(n))
            rng.shuffle(o)
            kw["ordering"] = o
        return alg, (n,), kw, lambda: RGM.LinearTree(n, **kw)
    if alg == "ff":
        n = rng.randint(1, 10)
        kw = {"num_repetitions": rng.randint(1, 3)}
        return alg, (n,), kw, lambda: RGM.FullyFactorized(n, **kw)
    if alg in ("quadtree", "quadgraph"):
        shape = (rng.choice([1, 1, 3]), rng.randint(1, 5), rng.randint(1, 5))
        if alg == "quadtree":
            kw = {"num_patch_splits": rng.choice([2, 4])}
            return alg, (shape,), kw, lambda: RGM.QuadTree(shape, **kw)
        return alg, (shape,), {}, lambda: RGM.QuadGraph(shape)
    if alg == "pd":
        shape = (1, rng.randint(1, 5), rng.randint(1, 5))
        kw = {"delta": rng.choice([1, 2, 3, [1, 2], [2, 3]]), "max_depth": rng.choice([None, 1, 2])}
        return alg, (shape,), kw, lambda: RGM.PoonDomingos(shape, **kw)
    n = rng.randint(2, 6)
    data = torch.tensor(np.array([[rng.randrange(3) for _ in range(n)] for _ in range(30)]))
    if n >= 3 and rng.random() < 0.4:
        # a product design: two groups of features that are EXACTLY independent in the sample (estimated mutual information 0.0)
        n1 = rng.randint(1, n - 1)
        A = [[rng.randrange(3) for _ in range(n1)] for _ in range(rng.choice([3, 4]))]
        B = [[rng.randrange(3) for _ in range(n - n1)] for _ in range(rng.choice([3, 4]))]
        rows = [a + b for a in A for b in B]
        cols = list(range(n))
        rng.shuffle(cols)
        data = torch.tensor(np.array(rows)[:, cols])
    kw = {"input_type": "categorical", "num_categories": 3, "root": rng.choice([None, 0, n - 1]), "as_region_graph": True}
    if rng.random() < 0.4:
        # continuous features: generic data, or designs whose feature groups are exactly uncorrelated in the sample
        import itertools as _it
        kw = {"input_type": "gaussian", "root": rng.choice([None, 0, n - 1]), "as_region_graph": True}
        style = rng.choice(["generic", "factorial", "product"])
        if style == "factorial" and n <= 4:
            rows = [list(r) for r in _it.product([-1.0, 1.0], repeat=n)] * rng.choice([1, 2])
        elif style == "product" and n >= 3:
            n1 = rng.randint(1, n - 1)
            A = [[rng.randint(-8, 8) / 4 for _ in range(n1)] for _ in range(4)]
            B = [[rng.randint(-8, 8) / 4 for _ in range(n - n1)] for _ in range(4)]
            rows = [a + b for a in A for b in B]
        else:
            rows = [[rng.randint(-16, 16) / 4 for _ in range(n)] for _ in range(24)]
        data = torch.tensor(np.array(rows, dtype=np.float64)).to(torch.get_default_dtype())
        kw["_style"] = style
    kw2 = {k: v for k, v in kw.items() if not k.startswith("_")}
    return alg, (n,), kw, lambda: RGM.ChowLiuTree(data, **kw2)


def canon_rg(rg):
    regs = sorted(tuple(sorted(r.scope._set)) for r in rg.region_nodes)
    parts = sorted((tuple(sorted(p.scope._set)), tuple(sorted(tuple(sorted(r.scope._set)) for r in rg.partition_inputs(p)))) for p in rg.partition_nodes)
    roots = sorted(tuple(sorted(r.scope._set)) for r in rg.outputs)
    return regs, parts, roots


def py_valid(rg):
    """direct reading of the property on the implementation's object"""
    allv = set()
    for r in rg.region_nodes:
        if not r.scope._set:
            return "empty region"
        allv |= r.scope._set
    rootv = set()
    for r in rg.outputs:
        rootv |= r.scope._set
    if rootv != allv:
        return "roots do not cover all variables"
    for p in rg.partition_nodes:
        ins = rg.partition_inputs(p)
        if not ins:
            return "partition without inputs"
        u = set()
        for a in ins:
            if not a.scope._set:
                return "empty input region"
            if u & a.scope._set:
                return "overlapping inputs"
            u |= a.scope._set
        if u != p.scope._set:
            return "inputs do not cover the partition"
        outs = rg.partition_outputs(p)
        if len(outs) != 1 or outs[0].scope._set != p.scope._set:
            return "partition parent mismatch"
    return None


def py_sd(rg):
    d = {}
    for p in rg.partition_nodes:
        d.setdefault(frozenset(p.scope._set), set()).add(frozenset(frozenset(r.scope._set) for r in rg.partition_inputs(p)))
    return all(len(v) == 1 for v in d.values())


def ex_rg(rg):
    regs = list(rg.region_nodes)
    idx = {r: i for i, r in enumerate(regs)}
    tr = "[" + "; ".join(export.ex_nats(sorted(r.scope._set)) for r in regs) + "]"
    tp = "[" + "; ".join(f"({idx[rg.partition_outputs(p)[0]]}, {export.ex_nats([idx[a] for a in rg.partition_inputs(p)])})" for p in rg.partition_nodes) + "]"
    return f"(mkRG {tr} {tp} {export.ex_nats([idx[r] for r in rg.outputs])})"


def one_case(rep, cs, seed, i):
    rng = rng_for(seed, PID, i)
    alg, args, kw, mk = make_rg(rng)
    desc = {"i": i, "seed": seed, "alg": alg, "args": [str(a) for a in args], "kwargs": {k: (v if not isinstance(v, torch.Tensor) else "data") for k, v in kw.items()}}
    rep.count("alg:" + alg)
    try:
        rg = mk()
    except Exception as e:
        rep.violation(f"rg-construction-raises:{alg}:{type(e).__name__}", "a region graph algorithm raised on valid arguments",
                      {"case": desc, "exception": repr(e)[:300], "traceback": traceback.format_exc()[-1200:]})
        return
    nvars = int(np.prod(args[0])) if isinstance(args[0], tuple) else args[0]
    err = py_valid(rg)
    if err:
        rep.violation(f"rg-invalid:{alg}", "the region graph violates: " + err, {"case": desc})
    if sorted(rg.scope._set) != list(range(nvars)):
        rep.violation(f"rg-scope:{alg}", "the root does not cover variables 0..n-1", {"case": desc, "observed": sorted(rg.scope._set)})
    sd = py_sd(rg)
    if bool(rg.is_structured_decomposable) != sd:
        rep.violation("rg-sd-flag", "is_structured_decomposable does not match the partitions", {"case": desc, "observed": bool(rg.is_structured_decomposable), "expected": sd})
    rep.count(f"sd={int(sd)}")
    # save / load
    try:
        with tempfile.TemporaryDirectory() as d:
            fn = os.path.join(d, "rg.json")
            rg.dump(fn)
            rg2 = RegionGraph.load(fn)
        if canon_rg(rg2) != canon_rg(rg) or bool(rg2.is_structured_decomposable) != bool(rg.is_structured_decomposable):
            rep.violation("rg-roundtrip", "dump followed by load does not preserve the region graph", {"case": desc})
    except Exception as e:
        rep.violation("rg-roundtrip-raises:" + type(e).__name__, "dump / load raised", {"case": desc, "exception": repr(e)[:300]})
    # ---- circuits ----
    ab = rng.choice(["cp", "cp-t", "tucker", "factories"])
    K = rng.choice([1, 2, 3])
    nc = rng.choice([1, 1, 2, 3])
    ik = rng.choice(["categorical", "gaussian", "embedding", "binomial"])
    ikw = {"categorical": {"num_categories": 3}, "gaussian": {}, "embedding": {"num_states": 3}, "binomial": {"total_count": 2}}[ik]
    desc.update({"abstraction": ab, "units": K, "classes": nc, "input": ik})
    rep.count("abstraction:" + ab)
    inf = name_to_input_layer_factory(ik, **ikw)
    wf = parameterization_to_factory(Parameterization(activation="softmax", initialization="normal"))
    try:
        if ab == "factories":
            sc = rg.build_circuit(input_factory=inf, sum_factory=lambda ki, ko: SumLayer(ki, ko, weight_factory=wf),
                                  prod_factory=lambda ki, ar: HadamardLayer(ki, arity=ar),
                                  num_input_units=K, num_sum_units=K, num_classes=nc)
        else:
            sc = rg.build_circuit(input_factory=inf, sum_product=ab, sum_weight_factory=wf, num_input_units=K, num_sum_units=K, num_classes=nc)
    except Exception as e:
        big = ab == "tucker" and any(len(rg.partition_inputs(p)) > 4 for p in rg.partition_nodes)
        if not big:
            rep.violation(f"build-circuit-raises:{ab}:{type(e).__name__}", "build_circuit raised on a valid region graph",
                          {"case": desc, "exception": repr(e)[:300], "traceback": traceback.format_exc()[-1200:]})
        return
    sm, de = spec_preds(sc)
    if not (sm and de and sc.is_smooth and sc.is_decomposable):
        rep.violation("circuit-not-smooth-decomposable", "the circuit built from a region graph is not smooth and decomposable", {"case": desc})
    if sorted(sc.scope._set) != sorted(rg.scope._set):
        rep.violation("circuit-scope", "the circuit is not over exactly the variables of the region graph", {"case": desc})
    if sd and not (sc.is_structured_decomposable and spec_sd_ok([sc])):
        rep.violation("circuit-not-sd", "the region graph is structured-decomposable but the circuit is not", {"case": desc})
    if any(o.num_output_units != nc for o in sc.outputs):
        rep.violation("circuit-output-units", "the output layers do not have the requested number of units",
                      {"case": desc, "observed": [o.num_output_units for o in sc.outputs], "expected": nc})
    # ---- correspondence: validity / flags recomputed by the verified model predicates ----
    small = len(list(rg.region_nodes)) <= 60 and len(sc.layers) <= 150
    if not small:
        rep.count("too-large-for-coq")
        return
    ex = export.Exporter(leafval=lambda p: np.zeros(p.shape))
    try:
        tc = ex.circuit(sc)
    except export.ExportError as e:
        rep.violation("export-error", str(e), {"case": desc}, found_input=False)
        return
    term = (f"let g := {ex_rg(rg)} in let c := {tc} in [b2n (rg_valid g); b2n (rg_sd g); b2n (wf c); b2n (is_smooth c); "
            f"b2n (is_decomposable c); b2n (is_sd c); b2n (seqb (cscope c) (rg_vars g))]")
    impl = [1, int(bool(rg.is_structured_decomposable)), 1, int(sc.is_smooth), int(sc.is_decomposable), int(sc.is_structured_decomposable), 1]

    def interp(res, desc=desc, impl=impl):
        if res[0] != 1:
            rep.violation("rg-invalid-model", "the verified validity predicate rejects the region graph", {"case": desc})
        if res != impl:
            rep.violation("rg-corr", "model predicates (rg_valid, rg_sd, wf, smooth, decomposable, sd, scope) disagree with cirkit",
                          {"case": desc, "model": res, "implementation": impl}, found_input=False)

    cs.add(desc, term, interp, nontrivial=len(list(rg.partition_nodes)) >= 2)


def run(rep, tier, seed, replay=None):
    n = 250 if tier == "quick" else 4000
    cs = CaseSet(rep, PID)
    if replay is not None:
        c = replay["replay"].get("case", {})
        one_case(rep, cs, c.get("seed", seed), c.get("i", 0))
        cs.run()
        return
    for i in range(n):
        one_case(rep, cs, seed, i)
    cs.run(shard=max(10, 250 // 14))  # shard size of the quick tier: thorough runs use more files, not longer ones
