(* C08 — structural predicates agree with their definitions
   Property theorems only: each is closed by `exact <lemma>`; proofs live in the imported files. *)
From Coq Require Import List ZArith QArith Qcanon Ring_theory Field_theory Permutation Sorted.
Import ListNotations.
From CK Require Import Base.
From CK Require Import Scalar.
From CK Require Import Tensor.
From CK Require Import Pexpr.
From CK Require Import Exec.
From CK Require Import Struct.
Close Scope Qc_scope. Close Scope Q_scope. Close Scope Z_scope. Open Scope nat_scope.

(* is_smooth is true exactly when every input of every sum has the sum's scope *)
Theorem C08_smooth_iff :
  forall c : circuit,
         is_smooth c = true <->
         (forall (i : nat) (l : layer) (ins : list nat),
          nth_error (nodes c) i = Some (l, ins) ->
          is_sum l = true ->
          forall j : nat, In j ins -> forall v : nat, In v (nth j (scopes c) []) <-> In v (nth i (scopes c) [])).
Proof. exact smooth_iff'. Qed.
Print Assumptions C08_smooth_iff.

(* is_decomposable is true exactly when the inputs of every product have pairwise disjoint scopes *)
Theorem C08_decomposable_iff :
  forall c : circuit,
         is_decomposable c = true <->
         (forall (l : layer) (ins : list nat),
          In (l, ins) (nodes c) ->
          is_prod l = true ->
          forall p q : nat,
          p < q ->
          q < length ins ->
          forall v : nat, ~ (In v (nth (nth p ins 0) (scopes c) []) /\ In v (nth (nth q ins 0) (scopes c) []))).
Proof. exact decomposable_iff. Qed.
Print Assumptions C08_decomposable_iff.

(* structured-decomposable answers are sound: products over the same scope split it into the same set of sub-scopes *)
Theorem C08_sd_sound :
  forall c : circuit,
         is_sd c = true ->
         forall (i1 : nat) (l1 : layer) (ins1 : list nat) (i2 : nat) (l2 : layer) (ins2 : list nat),
         prod_node c i1 l1 ins1 ->
         prod_node c i2 l2 ins2 ->
         set_eq (nth i1 (scopes c) []) (nth i2 (scopes c) []) ->
         two_nonempty (in_scopes c ins1) ->
         two_nonempty (in_scopes c ins2) -> same_split (in_scopes c ins1) (in_scopes c ins2).
Proof. exact is_sd_sound. Qed.
Print Assumptions C08_sd_sound.

(* compatibility answers are sound across the two circuits *)
Theorem C08_compatible_sound :
  forall a b : circuit,
         compatible a b = true ->
         forall c1 c2 : circuit,
         c1 = a \/ c1 = b ->
         c2 = a \/ c2 = b ->
         forall (i1 : nat) (l1 : layer) (ins1 : list nat) (i2 : nat) (l2 : layer) (ins2 : list nat),
         prod_node c1 i1 l1 ins1 ->
         prod_node c2 i2 l2 ins2 ->
         set_eq (nth i1 (scopes c1) []) (nth i2 (scopes c2) []) ->
         two_nonempty (in_scopes c1 ins1) ->
         two_nonempty (in_scopes c2 ins2) -> same_split (in_scopes c1 ins1) (in_scopes c2 ins2).
Proof. exact compatible_sound. Qed.
Print Assumptions C08_compatible_sound.

(* ... and complete *)
Theorem C08_compatible_iff :
  forall a b : circuit,
         compatible a b = true <->
         is_smooth a = true /\
         is_decomposable a = true /\
         is_smooth b = true /\
         is_decomposable b = true /\ same_splits a a /\ same_splits a b /\ same_splits b b.
Proof. exact compatible_iff. Qed.
Print Assumptions C08_compatible_iff.

(* the answer is symmetric in the two circuits *)
Theorem C08_symmetric :
  forall a b : circuit, compatible a b = compatible b a.
Proof. exact compatible_sym. Qed.
Print Assumptions C08_symmetric.

(* the answers do not depend on the order in which layers list their inputs *)
Theorem C08_sd_perm_invariant :
  forall c c' : circuit, perm_nodes (nodes c) (nodes c') -> is_sd c' = is_sd c.
Proof. exact is_sd_perm_nodes. Qed.
Print Assumptions C08_sd_perm_invariant.

(* idem for compatibility *)
Theorem C08_compatible_perm_invariant :
  forall c c' b : circuit, perm_nodes (nodes c) (nodes c') -> compatible c' b = compatible c b.
Proof. exact compatible_perm_nodes_l. Qed.
Print Assumptions C08_compatible_perm_invariant.

(* the answers do not depend on how variables are numbered (injective renaming) *)
Theorem C08_sd_rename_invariant :
  forall r : nat -> nat,
         (forall x y : nat, r x = r y -> x = y) -> forall c : circuit, is_sd (rename_circuit r c) = is_sd c.
Proof. exact is_sd_rename. Qed.
Print Assumptions C08_sd_rename_invariant.

(* idem for compatibility *)
Theorem C08_compatible_rename_invariant :
  forall r : nat -> nat,
         (forall x y : nat, r x = r y -> x = y) ->
         forall a b : circuit, compatible (rename_circuit r a) (rename_circuit r b) = compatible a b.
Proof. exact compatible_rename. Qed.
Print Assumptions C08_compatible_rename_invariant.

(* idem for smoothness *)
Theorem C08_smooth_rename_invariant :
  forall r : nat -> nat,
         (forall x y : nat, r x = r y -> x = y) ->
         forall c : circuit, is_smooth (rename_circuit r c) = is_smooth c.
Proof. exact is_smooth_rename. Qed.
Print Assumptions C08_smooth_rename_invariant.

(* idem for decomposability *)
Theorem C08_decomposable_rename_invariant :
  forall r : nat -> nat,
         (forall x y : nat, r x = r y -> x = y) ->
         forall c : circuit, is_decomposable (rename_circuit r c) = is_decomposable c.
Proof. exact is_decomposable_rename. Qed.
Print Assumptions C08_decomposable_rename_invariant.
